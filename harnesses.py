"""Harness registry: the single source of truth for which harness decides which property, with
which bound, stubs and budget.  The #[kani::proof] wrappers and the native replay dispatch table
are generated from it (build/gen/proofs_<crate>.rs) on every run.
"""

# stub sets (every stub is part of the claim of the harnesses that use it; see DESIGN.md 3.3)
STUBSETS = {
    # S-STR: fixed-capacity String model
    'str': [
        ('std::string::String::new', '$P::stubs::s_new'),
        ('std::string::String::reserve', '$P::stubs::s_reserve'),
        ('std::string::String::push', '$P::stubs::s_push'),
        ('<std::string::String as std::convert::From<&str>>::from', '$P::stubs::s_from'),
        ('<str as std::borrow::ToOwned>::to_owned', '$P::stubs::s_to_owned'),
    ],
    # S-FMT
    'fmt': [('alloc::fmt::format', '$P::stubs::s_format')],
    # S-ONCE
    'once': [('std::sync::Once::call_once', '$P::stubs::s_call_once')],
}

STUBSETS['case'] = [
    ('core::unicode::conversions::to_lower', '$P::stubs::st_to_lower'),
    ('core::unicode::unicode_data::lowercase::lookup', '$P::stubs::st_lowercase_lookup'),
    ('core::unicode::unicode_data::uppercase::lookup', '$P::stubs::st_uppercase_lookup'),
    ('core::unicode::unicode_data::lt::lookup', '$P::stubs::st_lt_lookup'),
    ('core::unicode::unicode_data::case_ignorable::lookup', '$P::stubs::st_case_ignorable_lookup'),
]
STUBSETS['width'] = [('precis_profiles::usernames::get_decomposition_mapping', '$P::stubs::st_width')]

STUBSETS['compat'] = [('precis_core::common::has_compat', '$P::stubs::st_has_compat')]

STUBSETS['pred'] = [('precis_core::common::' + a, '$P::stubs::' + b) for a, b in [
    ('get_exception_val', 'sp_exception'), ('get_backward_compatible_val', 'sp_backward'), ('is_unassigned', 'sp_unassigned'),
    ('is_ascii7', 'sp_ascii7'), ('is_join_control', 'sp_join_control'), ('is_old_hangul_jamo', 'sp_old_hangul_jamo'),
    ('is_precis_ignorable_property', 'sp_ignorable'), ('is_control', 'sp_control'), ('has_compat', 'sp_has_compat'),
    ('is_letter_digit', 'sp_letter_digit'), ('is_other_letter_digit', 'sp_other_letter_digit'), ('is_space', 'sp_space'),
    ('is_symbol', 'sp_symbol'), ('is_punctuation', 'sp_punctuation')]]

STUBSETS['ctx'] = [('precis_core::common::' + a, '$P::stubs::' + b) for a, b in [
    ('is_virama', 'sc_virama'), ('is_greek', 'sc_greek'), ('is_hebrew', 'sc_hebrew'), ('is_hiragana', 'sc_hiragana'),
    ('is_katakana', 'sc_katakana'), ('is_han', 'sc_han'), ('is_dual_joining', 'sc_dual'), ('is_left_joining', 'sc_left'),
    ('is_right_joining', 'sc_right'), ('is_transparent', 'sc_transparent')]]

STUBSETS['dpv'] = [('precis_core::stringclasses::get_derived_property_value', '$P::stubs::st_dpv')]

STUBSETS['rule'] = [('precis_core::context::get_context_rule', '$P::stubs::sr_get_rule')]

STUBSETS['bidi'] = [('crate::bidi::bidi_class_cp', '$P::stubs::st_bidi_class_cp')]
STUBSETS['bidiw'] = [('crate::bidi::bidi_class_cp', '$P::stubs::st_bidi_class_witness')]

STUBSETS['tools'] = [
    ('alloc::fmt::format', '$P::stubs::s_format'),
    ('ucd_parse::Codepoint::from_u32', '$P::stubs::s_cp_from_u32'),
    ('std::vec::Vec::push', '$P::stubs::s_vec_push'),
    ('std::vec::Vec::<T>::new', '$P::stubs::s_vec_new'),
]

STUBSETS['pipe'] = [
    ('$PROFILES::common::normalization_form_nfc', '$P::stubs::sp_nfc'),
    ('$PROFILES::common::normalization_form_nfkc', '$P::stubs::sp_nfkc'),
    ('precis_core::stringclasses::get_derived_property_value', '$P::stubs::sp_dpv'),
    ('precis_core::stringclasses::allowed_by_context_rule', '$P::stubs::sp_ctx_rule'),
    ('$PROFILES::usernames::get_decomposition_mapping', '$P::stubs::sp_width'),
    ('$PROFILES::common::is_space_separator', '$P::stubs::sp_is_space_separator'),
    ('core::unicode::conversions::to_lower', '$P::stubs::sp_to_lower'),
    ('core::unicode::unicode_data::lowercase::lookup', '$P::stubs::sp_lowercase_lookup'),
] + [('precis_core::common::' + a, '$P::stubs::' + b) for a, b in [
    ('is_virama', 'sp_virama'), ('is_greek', 'sp_greek'), ('is_hebrew', 'sp_hebrew'), ('is_hiragana', 'sp_hiragana'),
    ('is_katakana', 'sp_katakana'), ('is_han', 'sp_han'), ('is_dual_joining', 'sp_dual'), ('is_left_joining', 'sp_left'),
    ('is_right_joining', 'sp_right'), ('is_transparent', 'sp_transparent')]]
STUBSETS['adv'] = [("<core::str::Chars<'_> as core::iter::Iterator>::advance_by", '$P::stubs::s_advance_by')]
STUBSETS['chars'] = [("<core::str::Chars<'_> as core::iter::Iterator>::next", '$P::stubs::s_chars_next')]
STUBSETS['count'] = [("<core::str::Chars<'_> as core::iter::Iterator>::count", '$P::stubs::s_chars_count')]
STUBSETS['pipe'] += STUBSETS['adv'] + STUBSETS['chars']
STUBSETS['pipe4'] = [(t, r.replace('sp_nfc', 'sp_nfc4').replace('sp_nfkc', 'sp_nfkc4')) for t, r in STUBSETS['pipe']]
STUBSETS['pipe12'] = [(t, r.replace('sp_nfc', 'sp_nfc12').replace('sp_nfkc', 'sp_nfkc12')) for t, r in STUBSETS['pipe']]
STUBSETS['stab2'] = [('precis_core::profile::stabilize', '$P::stubs::st_stabilize2')]
STUBSETS['stab1'] = [('precis_core::profile::stabilize', '$P::stubs::st_stabilize1')]
STUBSETS['pipe_bidi'] = [('crate::bidi::bidi_class_cp', '$P::stubs::sp_bidi_class_cp')]

STUBSETS['predo'] = [('precis_core::common::' + a, '$P::stubs::' + b) for a, b in [
    ('get_exception_val', 'so_exception'), ('get_backward_compatible_val', 'so_backward'), ('is_unassigned', 'so_unassigned'),
    ('is_ascii7', 'so_ascii7'), ('is_join_control', 'so_join_control'), ('is_old_hangul_jamo', 'so_old_hangul_jamo'),
    ('is_precis_ignorable_property', 'so_ignorable'), ('is_control', 'so_control'), ('has_compat', 'so_has_compat'),
    ('is_letter_digit', 'so_letter_digit'), ('is_other_letter_digit', 'so_other_letter_digit'), ('is_space', 'so_space'),
    ('is_symbol', 'so_symbol'), ('is_punctuation', 'so_punctuation')]]

STUBSETS['rulespec'] = [('precis_core::context::get_context_rule', '$P::stubs::sr_get_rule_spec')]

STUB_DOC = {
    'rulespec': 'S-RULESPEC: context::get_context_rule keeps the real registry shape but returns, for each rule, its RFC 5892 specification '
                'evaluated on the label\'s character array (rule == specification is decided by C03); ZWNJ excluded from these labels',
    'count': 'S-COUNT: <Chars as Iterator>::count replaced by its defining loop over next()',
    'predo': 'S-PREDO: each table predicate of precis_core::common = the oracle predicate of the code point (discharged for every u32 by '
             'the c14_pred_* harnesses); used so that entry-point/pairing counterexamples replay natively',
    'stab1': 'S-STAB1: profile::stabilize replaced by one application of the rule function (Nickname no-drift harness only)',
    'stab2': 'S-STAB2: profile::stabilize replaced by two plain applications of the rule function (quick Nickname harnesses only; stabilize itself is C13, the full loop on real code is in the thorough tier)',
    'pipe4': 'S-PIPE with normalizer capacity 4 (strings of at most 1 input character); see S-PIPE',
    'pipe12': 'S-PIPE with normalizer capacity 12 (strings of up to 3 input characters); see S-PIPE',
    'chars': 'S-CHARS: <Chars as Iterator>::next replaced by an equivalent UTF-8 decoder that indexes the remaining bytes (valid UTF-8 is '
             'guaranteed by &str); removes the raw-pointer iterator from every character loop',
    'adv': 'S-ADV: Chars::advance_by (behind chars().nth(k)) replaced by its defining loop over next()',
    'pipe': 'S-PIPE: every table/std/normalization dependency of the pipelines restricted to the closed 43-character witness alphabet '
            'SIGMA_PIPE: derived property, context predicates, width, Zs (each discharged for every code point by the Layer A harnesses of '
            'C14, C03, C11, C12), std to_lowercase/is_lowercase (evaluated natively on the alphabet), and a rule-based NFC/NFKC model '
            'that gen.py compares with the real unicode-normalization crate on all 7,000,402 (string, form) pairs of SIGMA_PIPE^<=4; '
            'the bodies of normalization_form_nfc/_nfkc (quick-check fast path) are outside reach',
    'pipe_bidi': 'S-PIPE (Bidi): bidi_class_cp restricted to SIGMA_PIPE (discharged by c09_class_chunk_*)',
    'tools': 'S-FMT (format! returns an empty String), S-CP (ucd_parse::Codepoint::from_u32 is Ok for n <= 0x10FFFF, cutting the '
             'io::Error error path) and S-VEC (Vec::push without growth into vectors the harness pre-sizes; overflow = inconclusive)',
    'bidiw': 'S-BIDI-W: bidi::bidi_class_cp replaced by the UnicodeData 16.0.0 oracle restricted to one witness character per Bidi '
             'class (any other code point = inconclusive); discharged by the Layer A harnesses c09_class_chunk_*',
    'bidi': 'S-BIDI: bidi::bidi_class_cp replaced by the UnicodeData 16.0.0 oracle (default L for unassigned code points); '
            'discharged on every assigned code point by the Layer A harnesses c09_class_chunk_*',
    'rule': 'S-RULE: context::get_context_rule replaced by an ARBITRARY registry (solver-chosen per character) whose rules return '
            'solver-chosen outcomes per offset: allows()/allowed_by_context_rule are decided for every registry and rule behaviour; '
            'the real registry and rules are decided by the C03 harnesses',
    'dpv': 'S-DPV: stringclasses::get_derived_property_value replaced by the oracle decision list over the raw 6.3.0 UCD (keeps the '
           'class callbacks); discharged for every u32 by the C14 harnesses',
    'ctx': 'S-CTX: the ten context table predicates of precis_core::common (virama, scripts, joining types) replaced by oracle '
           'functions recomputed from the raw 6.3.0 UCD; discharged for every code point by the Layer A harnesses c03_nb_*',
    'pred': 'S-PRED: each table predicate of precis_core::common returns an arbitrary outcome fixed by the solver for the run '
            '(sound for a harness that evaluates a single code point, because the predicates are pure functions of it); '
            'Exceptions/BackwardCompatible values range over the class-independent values',
    'compat': 'S-COMPAT: precis_core::common::has_compat (NFKC of a symbolic character: out of reach) replaced by the HasCompat set '
              'computed by oracle/gen.py; gen.py aborts unless that set equals the real unicode-normalization crate on every code '
              'point assigned in 6.3.0 (exhaustive native evaluation, reported in coverage.oracle_inputs)',
    'case': 'S-CASE: core::unicode::conversions::to_lower and unicode_data::lowercase::lookup replaced by a model on the witness '
            'alphabet SIGMA_CASE (validated against the real std functions by harness c10_model_valid; outside the alphabet = inconclusive)',
    'width': 'S-WIDTH: usernames::get_decomposition_mapping replaced by the UnicodeData 16.0.0 oracle function (Layer A harness '
             'c11_width_one shows the real table lookup equals it for every scalar value)',
    'str': 'S-STR: String::new/reserve/push/From<&str>/to_owned replaced by a fixed-capacity model (no growth; capacity overflow = inconclusive)',
    'fmt': 'S-FMT: alloc::fmt::format returns an empty String (error messages are not part of any property)',
    'once': 'S-ONCE: Once::call_once runs the closure in place (single-threaded model of lazy init)',
}


PROFILES_PATH = {'ext': 'precis_profiles', 'profiles': 'crate', 'tools': 'precis_profiles'}
CRATE_PREFIX = {'ext': 'crate', 'profiles': 'crate::bidi::pv', 'tools': 'crate::generators::ucd_generator::pv'}


class H:
    def __init__(self, prop, name, body, crate='ext', unwind=None, stubs=(), extra_stubs=(), tiers=('quick', 'thorough'),
                 timeout=600, mem_gb=12, funcs=(), bound='', note='', expect_unsat_cover=(), memsafe='never', reach='thorough', unwindset=(), only_safety=False):
        self.prop = prop
        self.name = name
        self.body = body
        self.crate = crate
        self.unwind = unwind
        self.stubs = tuple(stubs)
        self.extra_stubs = tuple(extra_stubs)   # [(target, replacement, doc)]
        self.tiers = tiers
        self.timeout = timeout
        self.mem_gb = mem_gb
        self.funcs = list(funcs)
        self.bound = bound
        self.note = note
        self.expect_unsat_cover = tuple(expect_unsat_cover)
        # per-loop bounds: [(regex on the mangled loop id, N)]; resolved against `cbmc --show-loops` on every run.
        # Loops that match nothing keep the #[kani::unwind] default; unwinding assertions stay on for all of them.
        self.unwindset = tuple(unwindset)
        # C01 re-runs harness bodies of other properties: only their panic/overflow/index checks count for C01
        self.only_safety = only_safety
        # pointer checks of std/stub code ('never' | 'thorough' | 'always'): /repo contains no unsafe code, so these
        # only re-check std; Rust-level panics (bounds, overflow, unwrap, str slicing) are assertion checks and stay on.
        self.memsafe = memsafe
        # Kani's per-assertion reachability checks ('never' | 'thorough' | 'always'); explicit covers are always on.
        # Pipeline harnesses (S-PIPE family) never enable them: with hundreds of extra cover traces kani-driver itself ran
        # out of its memory budget while reading CBMC's output (c04_binding, c04_witness_fwA_fwA_caron in the thorough tier);
        # their explicit pv_cover! reachability witnesses stay on.
        if any(x.startswith('pipe') for x in self.stubs):
            reach = 'never'
        self.reach = reach

    def kani_flags(self, tier):
        f = []
        on = lambda v: v == 'always' or (v == 'thorough' and tier in ('thorough', 'deep'))
        if not on(self.memsafe):
            f.append('--no-memory-safety-checks')
        if not on(self.reach):
            f.append('--no-assertion-reach-checks')
        if f:
            f = ['-Z', 'unstable-options'] + f
        return f

    def stub_pairs(self):
        out = []
        pre = CRATE_PREFIX[self.crate]
        for s in self.stubs:
            if s.startswith('pred-except:'):
                keep = s.split(':', 1)[1]
                out.extend([p for p in STUBSETS['pred'] if p[0] != 'precis_core::common::' + keep])
                continue
            out.extend(STUBSETS[s])
        for t, r, _ in self.extra_stubs:
            out.append((t, r))
        return [(t.replace('$PROFILES', PROFILES_PATH[self.crate]), r.replace('$P', pre)) for t, r in out]

    def stub_docs(self):
        out = []
        for s in self.stubs:
            if s.startswith('pred-except:'):
                out.append('S-PRED constants (all false, Punctuation symbolic) for every table predicate EXCEPT %s, which runs '
                           'on its real generated tables' % s.split(':', 1)[1])
            else:
                out.append(STUB_DOC[s])
        return out + [d for _, _, d in self.extra_stubs]


Q = ('quick', 'thorough')
T = ('thorough',)

F_CMP = ['precis_core::Codepoints: PartialEq<u32>, PartialOrd<u32> (eq/ne/lt/le/gt/ge/partial_cmp)',
         'u32: PartialEq<Codepoints>, PartialOrd<Codepoints> (mirrored impls)']
F_SEARCH = ['core::slice::binary_search_by', 'Codepoints::partial_cmp(&u32)']

F14 = ['stringclasses::get_derived_property_value', 'IdentifierClass/FreeformClass::get_value_from_codepoint/get_value_from_char',
       'common::{get_exception_val, get_backward_compatible_val, is_unassigned, is_ascii7, is_join_control, is_old_hangul_jamo, '
       'is_precis_ignorable_property, is_control, is_letter_digit, is_other_letter_digit, is_space, is_symbol, is_punctuation}',
       'generated precis_tables.rs (6.3.0)'] + F_SEARCH

def pipe_us(n):
    """per-loop bounds of the pipeline harnesses for strings of at most n input characters (outputs at most 2n)"""
    m = 5 if n <= 1 else (9 if n <= 2 else 13)
    return (('11normalize_m', m), ('13normalize_arr', m), ('5stubs4norm', m), ('6allows', 2 * n + 2))


HARNESSES = [
    # ---------------------------------------------------------------- C18
    H('C18', 'c18_cmp_total', '$P::c18::cmp_total', funcs=F_CMP, timeout=300,
      bound='loop-free; entry kind, start<=end and cp range over all 32-bit values: complete'),
    H('C18', 'c18_cmp_monotone', '$P::c18::cmp_monotone', funcs=F_CMP, timeout=300,
      bound='loop-free; two entries with end1 < start2 and any cp, all 32-bit values: complete'),

    # ---------------------------------------------------------------- C13
    H('C13', 'c13_stabilize_any_fn', '$P::c13::stabilize_any_fn', unwind=8, timeout=600,
      funcs=['precis_core::profile::stabilize', 'Cow<str> == Cow<str>', 'Cow::into_owned'],
      bound='f = any of the 6^5 functions on 5 distinct strings (next string or typed failure), any start, '
            'unchanged results borrowed or owned, changed results owned or a borrowed prefix of the input; unwind 8'),

    # ---------------------------------------------------------------- C12
    H('C12', 'c12_one_char', '$P::c12::one_char', unwind=5, stubs=('str',), timeout=600,
      funcs=['Nickname::additional_mapping_rule (trim_spaces, find_disallowed_space)',
             'OpaqueString::additional_mapping_rule', 'common::is_space_separator', 'common::is_non_ascii_space'] + F_SEARCH,
      bound='one character, every Unicode scalar value'),
    H('C12', 'c12_nick_map_n3', '$P::c12::nick_map::<3, 12, _>', unwind=5, stubs=('str',), timeout=900,
      funcs=['Nickname::additional_mapping_rule (trim_spaces, find_disallowed_space)', 'common::is_space_separator'] + F_SEARCH,
      bound='strings of 0..=3 characters, every character any Unicode scalar value (all UTF-8 length mixes)'),
    H('C12', 'c12_opaque_map_n3', '$P::c12::opaque_map::<3, 12, _>', unwind=5, stubs=('str',), timeout=900,
      funcs=['OpaqueString::additional_mapping_rule', 'common::is_non_ascii_space', 'common::is_space_separator'] + F_SEARCH,
      bound='strings of 0..=3 characters, every character any Unicode scalar value'),
    H('C12', 'c12_nick_map_n5', '$P::c12::nick_map::<5, 20, _>', unwind=7, stubs=('str',), tiers=T, timeout=3000, mem_gb=20,
      funcs=['Nickname::additional_mapping_rule (trim_spaces, find_disallowed_space)', 'common::is_space_separator'] + F_SEARCH,
      bound='strings of 0..=5 characters, every character any Unicode scalar value'),
    H('C12', 'c12_opaque_map_n5', '$P::c12::opaque_map::<5, 20, _>', unwind=7, stubs=('str',), tiers=T, timeout=3000, mem_gb=20,
      funcs=['OpaqueString::additional_mapping_rule', 'common::is_non_ascii_space'] + F_SEARCH,
      bound='strings of 0..=5 characters, every character any Unicode scalar value'),

    # ---------------------------------------------------------------- C10
    H('C10', 'c10_case_exact_n1', '$P::c10::case_exact::<1, 4, 3, _>', unwind=4, stubs=('str',), timeout=900, mem_gb=22,
      unwindset=(('16binary_search_by', 13), ('8try_fold', 5), ('18try_from_fn_erased', 5), ('10next_match', 2), ('17case_mapping_rule', 2)),
      funcs=['common::case_mapping_rule (via UsernameCaseMapped::case_mapping_rule)', 'common::has_lowercase_mapping', 'char::is_lowercase',
             'char::to_lowercase (core::unicode conversions tables)'],
      bound='exactly one character, every Unicode scalar value', expect_unsat_cover=('COVER: unchanged 3/4-byte character first, mapped character last',)),
    H('C10', 'c10_case_exact_n2', '$P::c10::case_exact::<2, 8, 6, _>', unwind=7, stubs=('str',), tiers=T, timeout=3400, mem_gb=24,
      unwindset=(('16binary_search_by', 13), ('8try_fold', 5), ('18try_from_fn_erased', 5), ('10next_match', 3), ('17case_mapping_rule', 3)),
      funcs=['common::case_mapping_rule', 'common::has_lowercase_mapping', 'char::is_lowercase', 'char::to_lowercase'],
      bound='exactly two characters, each any Unicode scalar value'),
    H('C10', 'c10_model_valid', '$P::c10::model_valid', unwind=13, timeout=600,
      funcs=['char::to_lowercase', 'char::is_lowercase (real std tables, concrete witnesses)'],
      bound='every character of the witness alphabet SIGMA_CASE'),
    H('C10', 'c10_sigma_context', '$P::c10::sigma_context', unwind=16, timeout=900, mem_gb=16,
      funcs=['common::case_mapping_rule', 'char::to_lowercase', 'String (real, concrete sizes)'],
      bound='six concrete strings containing U+03A3 in word-final and non-final positions (constants: decided by constant folding)'),
    H('C10', 'c10_case_sigma_n2', '$P::c10::case_sigma::<2, 8, 6, _>', unwind=8, stubs=('str', 'case'), timeout=900, mem_gb=20,
      funcs=['common::case_mapping_rule', 'common::has_lowercase_mapping', 'char::is_lowercase (ASCII fast paths)', 'char::to_lowercase (iterator)'],
      bound='strings of 0..=2 characters over SIGMA_CASE (small, fast variant of c10_case_sigma_n3)'),
    H('C10', 'c10_case_sigma_n3', '$P::c10::case_sigma::<3, 12, 9, _>', unwind=11, stubs=('str', 'case'), tiers=T, timeout=900, mem_gb=26,
      funcs=['common::case_mapping_rule', 'common::has_lowercase_mapping', 'char::is_lowercase (ASCII fast paths)', 'char::to_lowercase (iterator)'],
      bound='strings of 0..=3 characters over SIGMA_CASE (23 witnesses: every combination of cased/uncased, lower/upper/title, '
            '1-4 byte, growing/shrinking/multi-character mappings)'),
    H('C10', 'c10_case_sigma_n4', '$P::c10::case_sigma::<4, 16, 12, _>', unwind=14, stubs=('str', 'case'), tiers=T, timeout=3000, mem_gb=20,
      funcs=['common::case_mapping_rule', 'common::has_lowercase_mapping', 'char::to_lowercase (iterator)'],
      bound='strings of 0..=4 characters over SIGMA_CASE'),
    H('C10', 'c10_nick_one', '$P::c10::nick_one', unwind=4, unwindset=(('16binary_search_by', 13), ('8try_fold', 5), ('18try_from_fn_erased', 5), ('10next_match', 2), ('17case_mapping_rule', 2)),
      stubs=('str',), tiers=T, timeout=1800, mem_gb=24,
      funcs=['common::case_mapping_rule (via Nickname::case_mapping_rule)', 'char::to_lowercase'],
      bound='one character, every Unicode scalar value'),
    # ---------------------------------------------------------------- C11
    H('C11', 'c11_width_one', '$P::c11::width_one', unwind=3, stubs=('str',), timeout=900,
      unwindset=(('16binary_search_by', 9), ('10next_match', 2), ('18width_mapping_rule', 2)),
      funcs=['usernames::width_mapping_rule', 'usernames::get_decomposition_mapping', 'usernames::has_width_mapping',
             'WIDE_NARROW_MAPPING (generated, 16.0.0)'] + F_SEARCH,
      bound='exactly one character, every Unicode scalar value'),
    H('C11', 'c11_width_map_n2', '$P::c11::width_map::<2, 8, _>', unwind=4, stubs=('str', 'width'), timeout=900,
      funcs=['usernames::width_mapping_rule (both username profiles)', 'usernames::has_width_mapping'],
      bound='strings of 0..=2 characters, every character any Unicode scalar value; table lookup stubbed by the oracle (S-WIDTH)'),
    H('C11', 'c11_width_map_n3', '$P::c11::width_map::<3, 12, _>', unwind=5, stubs=('str', 'width'), tiers=T, timeout=900,
      funcs=['usernames::width_mapping_rule (both username profiles)', 'usernames::has_width_mapping'],
      bound='strings of 0..=3 characters, every character any Unicode scalar value; table lookup stubbed by the oracle (S-WIDTH)'),
    H('C11', 'c11_width_map_n4', '$P::c11::width_map::<4, 16, _>', unwind=6, stubs=('str', 'width'), tiers=T, timeout=3000, mem_gb=20,
      funcs=['usernames::width_mapping_rule (both username profiles)', 'usernames::has_width_mapping'],
      bound='strings of 0..=4 characters, every character any Unicode scalar value; table lookup stubbed by the oracle (S-WIDTH)'),
    # ---------------------------------------------------------------- C14
    H('C14', 'c14_id_chunk_00', '$P::c14::id_chunk::<0, _>', unwind=12, stubs=('compat',), tiers=T, timeout=3400, mem_gb=14,
      funcs=F14, bound='IdentifierClass, every u32 in chunk 0 of 16 (the chunks partition 0..=u32::MAX; see coverage.oracle_inputs.dpv_chunks)'),
    H('C14', 'c14_id_chunk_01', '$P::c14::id_chunk::<1, _>', unwind=12, stubs=('compat',), tiers=T, timeout=3400, mem_gb=14,
      funcs=F14, bound='IdentifierClass, every u32 in chunk 1 of 16 (the chunks partition 0..=u32::MAX; see coverage.oracle_inputs.dpv_chunks)'),
    H('C14', 'c14_id_chunk_02', '$P::c14::id_chunk::<2, _>', unwind=12, stubs=('compat',), tiers=T, timeout=3400, mem_gb=14,
      funcs=F14, bound='IdentifierClass, every u32 in chunk 2 of 16 (the chunks partition 0..=u32::MAX; see coverage.oracle_inputs.dpv_chunks)'),
    H('C14', 'c14_id_chunk_03', '$P::c14::id_chunk::<3, _>', unwind=12, stubs=('compat',), tiers=T, timeout=3400, mem_gb=14,
      funcs=F14, bound='IdentifierClass, every u32 in chunk 3 of 16 (the chunks partition 0..=u32::MAX; see coverage.oracle_inputs.dpv_chunks)'),
    H('C14', 'c14_id_chunk_04', '$P::c14::id_chunk::<4, _>', unwind=12, stubs=('compat',), tiers=T, timeout=3400, mem_gb=14,
      funcs=F14, bound='IdentifierClass, every u32 in chunk 4 of 16 (the chunks partition 0..=u32::MAX; see coverage.oracle_inputs.dpv_chunks)'),
    H('C14', 'c14_id_chunk_05', '$P::c14::id_chunk::<5, _>', unwind=12, stubs=('compat',), tiers=T, timeout=3400, mem_gb=14,
      funcs=F14, bound='IdentifierClass, every u32 in chunk 5 of 16 (the chunks partition 0..=u32::MAX; see coverage.oracle_inputs.dpv_chunks)'),
    H('C14', 'c14_id_chunk_06', '$P::c14::id_chunk::<6, _>', unwind=12, stubs=('compat',), tiers=T, timeout=3400, mem_gb=14,
      funcs=F14, bound='IdentifierClass, every u32 in chunk 6 of 16 (the chunks partition 0..=u32::MAX; see coverage.oracle_inputs.dpv_chunks)'),
    H('C14', 'c14_id_chunk_07', '$P::c14::id_chunk::<7, _>', unwind=12, stubs=('compat',), tiers=T, timeout=3400, mem_gb=14,
      funcs=F14, bound='IdentifierClass, every u32 in chunk 7 of 16 (the chunks partition 0..=u32::MAX; see coverage.oracle_inputs.dpv_chunks)'),
    H('C14', 'c14_id_chunk_08', '$P::c14::id_chunk::<8, _>', unwind=12, stubs=('compat',), tiers=T, timeout=3400, mem_gb=14,
      funcs=F14, bound='IdentifierClass, every u32 in chunk 8 of 16 (the chunks partition 0..=u32::MAX; see coverage.oracle_inputs.dpv_chunks)'),
    H('C14', 'c14_id_chunk_09', '$P::c14::id_chunk::<9, _>', unwind=12, stubs=('compat',), tiers=T, timeout=3400, mem_gb=14,
      funcs=F14, bound='IdentifierClass, every u32 in chunk 9 of 16 (the chunks partition 0..=u32::MAX; see coverage.oracle_inputs.dpv_chunks)'),
    H('C14', 'c14_id_chunk_10', '$P::c14::id_chunk::<10, _>', unwind=12, stubs=('compat',), tiers=T, timeout=3400, mem_gb=14,
      funcs=F14, bound='IdentifierClass, every u32 in chunk 10 of 16 (the chunks partition 0..=u32::MAX; see coverage.oracle_inputs.dpv_chunks)'),
    H('C14', 'c14_id_chunk_11', '$P::c14::id_chunk::<11, _>', unwind=12, stubs=('compat',), tiers=T, timeout=3400, mem_gb=14,
      funcs=F14, bound='IdentifierClass, every u32 in chunk 11 of 16 (the chunks partition 0..=u32::MAX; see coverage.oracle_inputs.dpv_chunks)'),
    H('C14', 'c14_id_chunk_12', '$P::c14::id_chunk::<12, _>', unwind=12, stubs=('compat',), tiers=T, timeout=3400, mem_gb=14,
      funcs=F14, bound='IdentifierClass, every u32 in chunk 12 of 16 (the chunks partition 0..=u32::MAX; see coverage.oracle_inputs.dpv_chunks)'),
    H('C14', 'c14_id_chunk_13', '$P::c14::id_chunk::<13, _>', unwind=12, stubs=('compat',), tiers=T, timeout=3400, mem_gb=14,
      funcs=F14, bound='IdentifierClass, every u32 in chunk 13 of 16 (the chunks partition 0..=u32::MAX; see coverage.oracle_inputs.dpv_chunks)'),
    H('C14', 'c14_id_chunk_14', '$P::c14::id_chunk::<14, _>', unwind=12, stubs=('compat',), tiers=T, timeout=3400, mem_gb=14,
      funcs=F14, bound='IdentifierClass, every u32 in chunk 14 of 16 (the chunks partition 0..=u32::MAX; see coverage.oracle_inputs.dpv_chunks)'),
    H('C14', 'c14_id_chunk_15', '$P::c14::id_chunk::<15, _>', unwind=12, stubs=('compat',), tiers=T, timeout=3400, mem_gb=14,
      funcs=F14, bound='IdentifierClass, every u32 in chunk 15 of 16 (the chunks partition 0..=u32::MAX; see coverage.oracle_inputs.dpv_chunks)'),
    H('C14', 'c14_free_chunk_00', '$P::c14::free_chunk::<0, _>', unwind=12, stubs=('compat',), tiers=T, timeout=1500, mem_gb=14,
      funcs=F14, bound='FreeformClass, every u32 in chunk 0 of 16'),
    H('C14', 'c14_free_chunk_01', '$P::c14::free_chunk::<1, _>', unwind=12, stubs=('compat',), tiers=T, timeout=1500, mem_gb=14,
      funcs=F14, bound='FreeformClass, every u32 in chunk 1 of 16'),
    H('C14', 'c14_free_chunk_02', '$P::c14::free_chunk::<2, _>', unwind=12, stubs=('compat',), tiers=T, timeout=1500, mem_gb=14,
      funcs=F14, bound='FreeformClass, every u32 in chunk 2 of 16'),
    H('C14', 'c14_free_chunk_03', '$P::c14::free_chunk::<3, _>', unwind=12, stubs=('compat',), tiers=T, timeout=1500, mem_gb=14,
      funcs=F14, bound='FreeformClass, every u32 in chunk 3 of 16'),
    H('C14', 'c14_free_chunk_04', '$P::c14::free_chunk::<4, _>', unwind=12, stubs=('compat',), tiers=T, timeout=1500, mem_gb=14,
      funcs=F14, bound='FreeformClass, every u32 in chunk 4 of 16'),
    H('C14', 'c14_free_chunk_05', '$P::c14::free_chunk::<5, _>', unwind=12, stubs=('compat',), tiers=T, timeout=1500, mem_gb=14,
      funcs=F14, bound='FreeformClass, every u32 in chunk 5 of 16'),
    H('C14', 'c14_free_chunk_06', '$P::c14::free_chunk::<6, _>', unwind=12, stubs=('compat',), tiers=T, timeout=1500, mem_gb=14,
      funcs=F14, bound='FreeformClass, every u32 in chunk 6 of 16'),
    H('C14', 'c14_free_chunk_07', '$P::c14::free_chunk::<7, _>', unwind=12, stubs=('compat',), tiers=T, timeout=1500, mem_gb=14,
      funcs=F14, bound='FreeformClass, every u32 in chunk 7 of 16'),
    H('C14', 'c14_free_chunk_08', '$P::c14::free_chunk::<8, _>', unwind=12, stubs=('compat',), tiers=T, timeout=1500, mem_gb=14,
      funcs=F14, bound='FreeformClass, every u32 in chunk 8 of 16'),
    H('C14', 'c14_free_chunk_09', '$P::c14::free_chunk::<9, _>', unwind=12, stubs=('compat',), tiers=T, timeout=1500, mem_gb=14,
      funcs=F14, bound='FreeformClass, every u32 in chunk 9 of 16'),
    H('C14', 'c14_free_chunk_10', '$P::c14::free_chunk::<10, _>', unwind=12, stubs=('compat',), tiers=T, timeout=1500, mem_gb=14,
      funcs=F14, bound='FreeformClass, every u32 in chunk 10 of 16'),
    H('C14', 'c14_free_chunk_11', '$P::c14::free_chunk::<11, _>', unwind=12, stubs=('compat',), tiers=T, timeout=1500, mem_gb=14,
      funcs=F14, bound='FreeformClass, every u32 in chunk 11 of 16'),
    H('C14', 'c14_free_chunk_12', '$P::c14::free_chunk::<12, _>', unwind=12, stubs=('compat',), tiers=T, timeout=1500, mem_gb=14,
      funcs=F14, bound='FreeformClass, every u32 in chunk 12 of 16'),
    H('C14', 'c14_free_chunk_13', '$P::c14::free_chunk::<13, _>', unwind=12, stubs=('compat',), tiers=T, timeout=1500, mem_gb=14,
      funcs=F14, bound='FreeformClass, every u32 in chunk 13 of 16'),
    H('C14', 'c14_free_chunk_14', '$P::c14::free_chunk::<14, _>', unwind=12, stubs=('compat',), tiers=T, timeout=1500, mem_gb=14,
      funcs=F14, bound='FreeformClass, every u32 in chunk 14 of 16'),
    H('C14', 'c14_free_chunk_15', '$P::c14::free_chunk::<15, _>', unwind=12, stubs=('compat',), tiers=T, timeout=1500, mem_gb=14,
      funcs=F14, bound='FreeformClass, every u32 in chunk 15 of 16'),
    H('C14', 'c14_pred_get_exception_val', '$P::c14::pred_real::<0, _>', unwind=7, stubs=('pred-except:get_exception_val',), timeout=1500, mem_gb=8,
      funcs=['common::get_exception_val on its real generated tables: EXCEPTIONS (41)', 'common::is_in_table', 'stringclasses::get_derived_property_value',
             'IdentifierClass::get_value_from_codepoint'] + F_SEARCH,
      bound='every u32 (complete); binary search unwind 7 confirmed by unwinding assertions'),
    H('C14', 'c14_pred_is_unassigned', '$P::c14::pred_real::<1, _>', unwind=12, stubs=('pred-except:is_unassigned',), timeout=1500, mem_gb=8,
      funcs=['common::is_unassigned on its real generated tables: UNASSIGNED (542), NONCHARACTER_CODE_POINT', 'common::is_in_table', 'stringclasses::get_derived_property_value',
             'IdentifierClass::get_value_from_codepoint'] + F_SEARCH,
      bound='every u32 (complete); binary search unwind 12 confirmed by unwinding assertions'),
    H('C14', 'c14_pred_is_ascii7', '$P::c14::pred_real::<2, _>', unwind=3, stubs=('pred-except:is_ascii7',), timeout=1500, mem_gb=8,
      funcs=['common::is_ascii7 on its real generated tables: ASCII7', 'common::is_in_table', 'stringclasses::get_derived_property_value',
             'IdentifierClass::get_value_from_codepoint'] + F_SEARCH,
      bound='every u32 (complete); binary search unwind 3 confirmed by unwinding assertions'),
    H('C14', 'c14_pred_is_join_control', '$P::c14::pred_real::<3, _>', unwind=3, stubs=('pred-except:is_join_control',), timeout=1500, mem_gb=8,
      funcs=['common::is_join_control on its real generated tables: JOIN_CONTROL', 'common::is_in_table', 'stringclasses::get_derived_property_value',
             'IdentifierClass::get_value_from_codepoint'] + F_SEARCH,
      bound='every u32 (complete); binary search unwind 3 confirmed by unwinding assertions'),
    H('C14', 'c14_pred_is_old_hangul_jamo', '$P::c14::pred_real::<4, _>', unwind=5, stubs=('pred-except:is_old_hangul_jamo',), timeout=1500, mem_gb=8,
      funcs=['common::is_old_hangul_jamo on its real generated tables: LEADING/VOWEL/TRAILING_JAMO', 'common::is_in_table', 'stringclasses::get_derived_property_value',
             'IdentifierClass::get_value_from_codepoint'] + F_SEARCH,
      bound='every u32 (complete); binary search unwind 5 confirmed by unwinding assertions'),
    H('C14', 'c14_pred_is_precis_ignorable_property', '$P::c14::pred_real::<5, _>', unwind=7, stubs=('pred-except:is_precis_ignorable_property',), timeout=1500, mem_gb=8,
      funcs=['common::is_precis_ignorable_property on its real generated tables: DEFAULT_IGNORABLE_CODE_POINT, NONCHARACTER_CODE_POINT', 'common::is_in_table', 'stringclasses::get_derived_property_value',
             'IdentifierClass::get_value_from_codepoint'] + F_SEARCH,
      bound='every u32 (complete); binary search unwind 7 confirmed by unwinding assertions'),
    H('C14', 'c14_pred_is_control', '$P::c14::pred_real::<6, _>', unwind=4, stubs=('pred-except:is_control',), timeout=1500, mem_gb=8,
      funcs=['common::is_control on its real generated tables: CONTROL', 'common::is_in_table', 'stringclasses::get_derived_property_value',
             'IdentifierClass::get_value_from_codepoint'] + F_SEARCH,
      bound='every u32 (complete); binary search unwind 4 confirmed by unwinding assertions'),
    H('C14', 'c14_pred_is_letter_digit', '$P::c14::pred_real::<8, _>', unwind=12, stubs=('pred-except:is_letter_digit',), timeout=1500, mem_gb=8,
      funcs=['common::is_letter_digit on its real generated tables: Ll, Lu, Lo, Nd, Lm, Mn, Mc tables', 'common::is_in_table', 'stringclasses::get_derived_property_value',
             'IdentifierClass::get_value_from_codepoint'] + F_SEARCH,
      bound='every u32 (complete); binary search unwind 12 confirmed by unwinding assertions'),
    H('C14', 'c14_pred_is_other_letter_digit', '$P::c14::pred_real::<9, _>', unwind=9, stubs=('pred-except:is_other_letter_digit',), timeout=1500, mem_gb=8,
      funcs=['common::is_other_letter_digit on its real generated tables: Lt, Nl, No, Me tables', 'common::is_in_table', 'stringclasses::get_derived_property_value',
             'IdentifierClass::get_value_from_codepoint'] + F_SEARCH,
      bound='every u32 (complete); binary search unwind 9 confirmed by unwinding assertions'),
    H('C14', 'c14_pred_is_space', '$P::c14::pred_real::<10, _>', unwind=5, stubs=('pred-except:is_space',), timeout=1500, mem_gb=8,
      funcs=['common::is_space on its real generated tables: SPACE_SEPARATOR', 'common::is_in_table', 'stringclasses::get_derived_property_value',
             'IdentifierClass::get_value_from_codepoint'] + F_SEARCH,
      bound='every u32 (complete); binary search unwind 5 confirmed by unwinding assertions'),
    H('C14', 'c14_pred_is_symbol', '$P::c14::pred_real::<11, _>', unwind=10, stubs=('pred-except:is_symbol',), timeout=1500, mem_gb=8,
      funcs=['common::is_symbol on its real generated tables: Sm, Sc, Sk, So tables', 'common::is_in_table', 'stringclasses::get_derived_property_value',
             'IdentifierClass::get_value_from_codepoint'] + F_SEARCH,
      bound='every u32 (complete); binary search unwind 10 confirmed by unwinding assertions'),
    H('C14', 'c14_pred_is_punctuation', '$P::c14::pred_real::<12, _>', unwind=10, stubs=('pred-except:is_punctuation',), timeout=1500, mem_gb=8,
      funcs=['common::is_punctuation on its real generated tables: Pc, Pd, Ps, Pe, Pi, Pf, Po tables', 'common::is_in_table', 'stringclasses::get_derived_property_value',
             'IdentifierClass::get_value_from_codepoint'] + F_SEARCH,
      bound='every u32 (complete); binary search unwind 10 confirmed by unwinding assertions'),
    H('C14', 'c14_pairing', '$P::c14::pairing', unwind=2, stubs=('pred',), timeout=600,
      funcs=['stringclasses::get_derived_property_value', 'IdentifierClass/FreeformClass::{get_value_from_codepoint, get_value_from_char}',
             'SpecificDerivedPropertyValue callbacks of both classes'],
      bound='any u32, ANY outcome of every table predicate (loop-free): complete'),
    H('C14', 'c14_entry_points', '$P::c14::entry_points', unwind=2, stubs=('predo',), timeout=900,
      funcs=['IdentifierClass/FreeformClass::{get_value_from_codepoint, get_value_from_char}', 'stringclasses::get_derived_property_value'],
      bound='every u32 (complete); predicates = oracle functions of the real 6.3.0 data'),
    H('C14', 'c14_decision_order', '$P::c14::decision_order', unwind=2, stubs=('pred',), timeout=600,
      funcs=['stringclasses::get_derived_property_value'],
      bound='any u32, ANY outcome of every table predicate (loop-free): complete'),
    # ---------------------------------------------------------------- C03
    H('C03', 'c03_nb_zwj', '$P::c03::nb_zwj', unwind=5, unwindset=(('16binary_search_by', 8),), timeout=1200,
      funcs=['context::rule_zero_width_joiner, common::is_virama (VIRAMA table)'] + F_SEARCH,
      bound='the inspected neighbour is any Unicode scalar value (complete per role); companions concrete'),
    H('C03', 'c03_nb_zwnj_before', '$P::c03::nb_zwnj_before', unwind=5, unwindset=(('16binary_search_by', 10),), timeout=1200,
      funcs=['context::rule_zero_width_nonjoiner, common::is_virama/is_transparent/is_left_joining/is_dual_joining (real tables)'] + F_SEARCH,
      bound='the inspected neighbour is any Unicode scalar value (complete per role); companions concrete'),
    H('C03', 'c03_nb_zwnj_after', '$P::c03::nb_zwnj_after', unwind=5, unwindset=(('16binary_search_by', 10),), timeout=1200,
      funcs=['context::rule_zero_width_nonjoiner, common::is_transparent/is_right_joining/is_dual_joining (real tables)'] + F_SEARCH,
      bound='the inspected neighbour is any Unicode scalar value (complete per role); companions concrete'),
    H('C03', 'c03_nb_keraia', '$P::c03::nb_keraia', unwind=5, unwindset=(('16binary_search_by', 8),), timeout=1200,
      funcs=['context::rule_greek_lower_numeral_sign_keraia, common::is_greek (GREEK table)'] + F_SEARCH,
      bound='the inspected neighbour is any Unicode scalar value (complete per role); companions concrete'),
    H('C03', 'c03_nb_hebrew', '$P::c03::nb_hebrew', unwind=5, unwindset=(('16binary_search_by', 7),), timeout=1200,
      funcs=['context::rule_hebrew_punctuation, common::is_hebrew (HEBREW table)'] + F_SEARCH,
      bound='the inspected neighbour is any Unicode scalar value (complete per role); companions concrete'),
    H('C03', 'c03_nb_katakana', '$P::c03::nb_katakana', unwind=5, unwindset=(('16binary_search_by', 8),), timeout=1200,
      funcs=['context::rule_katakana_middle_dot, common::is_hiragana/is_katakana/is_han (real tables)'] + F_SEARCH,
      bound='the inspected neighbour is any Unicode scalar value (complete per role); companions concrete'),
    H('C03', 'c03_rule_zwj_n3', '$P::c03::rule_zwj::<3, 12, _>', unwind=6, stubs=('ctx',), timeout=1200,
      funcs=['context::rule_zero_width_joiner', 'context::before', 'context::after'],
      bound='labels of 0..=3 characters, every character any Unicode scalar value; offset ANY usize'),
    H('C03', 'c03_rule_zwj_n5', '$P::c03::rule_zwj::<5, 20, _>', unwind=8, stubs=('ctx',), tiers=T, timeout=3000, mem_gb=20,
      funcs=['context::rule_zero_width_joiner', 'context::before', 'context::after'],
      bound='labels of 0..=5 characters, every character any Unicode scalar value; offset ANY usize'),
    H('C03', 'c03_rule_middle_dot_n3', '$P::c03::rule_middle_dot_b::<3, 12, _>', unwind=6, stubs=('ctx',), timeout=1200,
      funcs=['context::rule_middle_dot', 'context::before', 'context::after'],
      bound='labels of 0..=3 characters, every character any Unicode scalar value; offset ANY usize'),
    H('C03', 'c03_rule_middle_dot_n5', '$P::c03::rule_middle_dot_b::<5, 20, _>', unwind=8, stubs=('ctx',), tiers=T, timeout=3000, mem_gb=20,
      funcs=['context::rule_middle_dot', 'context::before', 'context::after'],
      bound='labels of 0..=5 characters, every character any Unicode scalar value; offset ANY usize'),
    H('C03', 'c03_rule_keraia_n3', '$P::c03::rule_keraia_b::<3, 12, _>', unwind=6, stubs=('ctx',), timeout=1200,
      funcs=['context::rule_greek_lower_numeral_sign_keraia', 'context::before', 'context::after'],
      bound='labels of 0..=3 characters, every character any Unicode scalar value; offset ANY usize'),
    H('C03', 'c03_rule_keraia_n5', '$P::c03::rule_keraia_b::<5, 20, _>', unwind=8, stubs=('ctx',), tiers=T, timeout=3000, mem_gb=20,
      funcs=['context::rule_greek_lower_numeral_sign_keraia', 'context::before', 'context::after'],
      bound='labels of 0..=5 characters, every character any Unicode scalar value; offset ANY usize'),
    H('C03', 'c03_rule_hebrew_n3', '$P::c03::rule_hebrew_b::<3, 12, _>', unwind=6, stubs=('ctx',), timeout=1200,
      funcs=['context::rule_hebrew_punctuation', 'context::before', 'context::after'],
      bound='labels of 0..=3 characters, every character any Unicode scalar value; offset ANY usize'),
    H('C03', 'c03_rule_hebrew_n5', '$P::c03::rule_hebrew_b::<5, 20, _>', unwind=8, stubs=('ctx',), tiers=T, timeout=3000, mem_gb=20,
      funcs=['context::rule_hebrew_punctuation', 'context::before', 'context::after'],
      bound='labels of 0..=5 characters, every character any Unicode scalar value; offset ANY usize'),
    H('C03', 'c03_rule_katakana_n3', '$P::c03::rule_katakana_b::<3, 12, _>', unwind=6, stubs=('ctx',), timeout=1200,
      funcs=['context::rule_katakana_middle_dot', 'context::before', 'context::after'],
      bound='labels of 0..=3 characters, every character any Unicode scalar value; offset ANY usize'),
    H('C03', 'c03_rule_katakana_n5', '$P::c03::rule_katakana_b::<5, 20, _>', unwind=8, stubs=('ctx',), tiers=T, timeout=3000, mem_gb=20,
      funcs=['context::rule_katakana_middle_dot', 'context::before', 'context::after'],
      bound='labels of 0..=5 characters, every character any Unicode scalar value; offset ANY usize'),
    H('C03', 'c03_rule_arabic_n3', '$P::c03::rule_arabic_b::<3, 12, _>', unwind=6, stubs=('ctx',), timeout=1200,
      funcs=['context::rule_arabic_indic_digits', 'context::before', 'context::after'],
      bound='labels of 0..=3 characters, every character any Unicode scalar value; offset ANY usize'),
    H('C03', 'c03_rule_arabic_n5', '$P::c03::rule_arabic_b::<5, 20, _>', unwind=8, stubs=('ctx',), tiers=T, timeout=3000, mem_gb=20,
      funcs=['context::rule_arabic_indic_digits', 'context::before', 'context::after'],
      bound='labels of 0..=5 characters, every character any Unicode scalar value; offset ANY usize'),
    H('C03', 'c03_rule_ext_arabic_n3', '$P::c03::rule_ext_arabic_b::<3, 12, _>', unwind=6, stubs=('ctx',), timeout=1200,
      funcs=['context::rule_extended_arabic_indic_digits', 'context::before', 'context::after'],
      bound='labels of 0..=3 characters, every character any Unicode scalar value; offset ANY usize'),
    H('C03', 'c03_rule_ext_arabic_n5', '$P::c03::rule_ext_arabic_b::<5, 20, _>', unwind=8, stubs=('ctx',), tiers=T, timeout=3000, mem_gb=20,
      funcs=['context::rule_extended_arabic_indic_digits', 'context::before', 'context::after'],
      bound='labels of 0..=5 characters, every character any Unicode scalar value; offset ANY usize'),
    H('C03', 'c03_rule_zwnj_n2', '$P::c03::rule_zwnj_b::<2, 8, _>', unwind=4, unwindset=(('25rule_zero_width_nonjoiner', 3), (r'10advance_by\w*\.0$', 2), ('10advance_by', 4)), stubs=('ctx',), expect_unsat_cover=('COVER: rejected because of the following character',), timeout=1200, mem_gb=18,
      funcs=['context::rule_zero_width_nonjoiner', 'context::before', 'context::after'],
      bound='labels of 0..=2 characters, every character any Unicode scalar value; offset ANY usize (the three-character cases with every neighbour are c03_nb_zwnj_*)'),
    H('C03', 'c03_rule_zwnj_n4', '$P::c03::rule_zwnj_b::<4, 16, _>', unwind=6, unwindset=(('25rule_zero_width_nonjoiner', 5), (r'10advance_by\w*\.0$', 2), ('10advance_by', 6)), stubs=('ctx',), tiers=T, timeout=3000, mem_gb=30,
      funcs=['context::rule_zero_width_nonjoiner', 'context::before', 'context::after'],
      bound='labels of 0..=4 characters, every character any Unicode scalar value; offset ANY usize'),
    H('C03', 'c03_rule_zwnj_n5', '$P::c03::rule_zwnj_b::<5, 20, _>', unwind=7, unwindset=(('25rule_zero_width_nonjoiner', 6), (r'10advance_by\w*\.0$', 2), ('10advance_by', 7)), stubs=('ctx',), tiers=T, timeout=3400, mem_gb=44,
      funcs=['context::rule_zero_width_nonjoiner', 'context::before', 'context::after'],
      bound='labels of 0..=5 characters (transparent characters on both sides), every character any Unicode scalar value; offset ANY usize'),
    H('C03', 'c03_registry', '$P::c03::registry', unwind=4, stubs=('ctx',), timeout=900,
      funcs=['context::get_context_rule', 'all nine rule functions through the returned function pointer'],
      bound='every u32 (complete)'),
    # ---------------------------------------------------------------- C02
    H('C02', 'c02_any_class_n4', '$P::c02::any_class::<4, 16, _>', unwind=9, stubs=('rule',), timeout=1500, mem_gb=16,
      funcs=['StringClass::allows (default method)', 'stringclasses::allowed_by_context_rule', 'context::get_context_rule', 'the nine context rules'],
      bound='labels of 0..=4 characters, every character any Unicode scalar value; derived property values, rule registry and '
            'rule outcomes = ANY functions (user-supplied class)'),
    H('C02', 'c02_any_class_n2', '$P::c02::any_class::<2, 8, _>', unwind=5, stubs=('rule', 'adv', 'chars', 'count'), timeout=900, mem_gb=12,
      funcs=['StringClass::allows (default method)', 'stringclasses::allowed_by_context_rule'],
      bound='labels of 0..=2 characters (small, fast variant of c02_any_class_n4)'),
    H('C02', 'c02_rulespec_n2', '$P::c02::any_class_rulespec::<2, 8, _>', unwind=9, stubs=('rulespec', 'adv', 'chars', 'count'), timeout=1200, mem_gb=14,
      funcs=['StringClass::allows (default method)', 'stringclasses::allowed_by_context_rule', 'context::get_context_rule (registry shape)'],
      bound='labels of 0..=2 characters (no U+200C), every character any other Unicode scalar value; values = ANY function of the characters; rules = their specifications'),
    H('C02', 'c02_rulespec_n3', '$P::c02::any_class_rulespec::<3, 12, _>', unwind=9, stubs=('rulespec', 'adv', 'chars', 'count'), tiers=T, timeout=1500, mem_gb=36,
      funcs=['StringClass::allows (default method)', 'stringclasses::allowed_by_context_rule', 'context::get_context_rule (registry shape)'],
      bound='labels of 0..=3 characters (no U+200C), every character any other Unicode scalar value; derived property values = ANY function of the characters; rules = their specifications'),
    H('C02', 'c02_std_class_n2', '$P::c02::std_class::<2, 8, _>', unwind=5, stubs=('ctx', 'dpv'), tiers=T, timeout=3400, mem_gb=24,
      funcs=['IdentifierClass::allows', 'FreeformClass::allows', 'stringclasses::allowed_by_context_rule', 'context::get_context_rule'],
      bound='labels of 0..=2 characters, every character any Unicode scalar value; both standard classes, real registry and rules'),
    H('C02', 'c02_any_class_n6', '$P::c02::any_class::<6, 24, _>', unwind=9, stubs=('rule',), tiers=T, timeout=3400, mem_gb=24,
      funcs=['StringClass::allows (default method)', 'stringclasses::allowed_by_context_rule', 'context::get_context_rule', 'the nine context rules'],
      bound='labels of 0..=6 characters, every character any Unicode scalar value; values, registry, rule outcomes = ANY functions'),
    H('C02', 'c02_std_class_n3', '$P::c02::std_class::<3, 12, _>', unwind=6, stubs=('ctx', 'dpv'), tiers=T, timeout=3400, mem_gb=30,
      funcs=['IdentifierClass::allows', 'FreeformClass::allows', 'stringclasses::allowed_by_context_rule', 'context::get_context_rule'],
      bound='labels of 0..=3 characters, every character any Unicode scalar value; both standard classes, real registry and rules'),
    # ---------------------------------------------------------------- C09 (in-crate: precis-profiles)
    H('C09', 'c09_class_chunk_0', '$P::c09::class_chunk::<0, _>', crate='profiles', unwind=13, timeout=1500, mem_gb=10,
      funcs=['bidi::bidi_class_cp', 'BIDI_CLASS_TABLE (generated, 16.0.0, 1570 entries)'] + F_SEARCH,
      bound='every u32 in chunk 0 of 8 (the chunks partition 0..=u32::MAX); assigned code points compared, unassigned only executed'),
    H('C09', 'c09_class_chunk_1', '$P::c09::class_chunk::<1, _>', crate='profiles', unwind=13, timeout=1500, mem_gb=10,
      funcs=['bidi::bidi_class_cp', 'BIDI_CLASS_TABLE (generated, 16.0.0, 1570 entries)'] + F_SEARCH,
      bound='every u32 in chunk 1 of 8 (the chunks partition 0..=u32::MAX); assigned code points compared, unassigned only executed'),
    H('C09', 'c09_class_chunk_2', '$P::c09::class_chunk::<2, _>', crate='profiles', unwind=13, timeout=1500, mem_gb=10,
      funcs=['bidi::bidi_class_cp', 'BIDI_CLASS_TABLE (generated, 16.0.0, 1570 entries)'] + F_SEARCH,
      bound='every u32 in chunk 2 of 8 (the chunks partition 0..=u32::MAX); assigned code points compared, unassigned only executed'),
    H('C09', 'c09_class_chunk_3', '$P::c09::class_chunk::<3, _>', crate='profiles', unwind=13, timeout=1500, mem_gb=10,
      funcs=['bidi::bidi_class_cp', 'BIDI_CLASS_TABLE (generated, 16.0.0, 1570 entries)'] + F_SEARCH,
      bound='every u32 in chunk 3 of 8 (the chunks partition 0..=u32::MAX); assigned code points compared, unassigned only executed'),
    H('C09', 'c09_class_chunk_4', '$P::c09::class_chunk::<4, _>', crate='profiles', unwind=13, timeout=1500, mem_gb=10,
      funcs=['bidi::bidi_class_cp', 'BIDI_CLASS_TABLE (generated, 16.0.0, 1570 entries)'] + F_SEARCH,
      bound='every u32 in chunk 4 of 8 (the chunks partition 0..=u32::MAX); assigned code points compared, unassigned only executed'),
    H('C09', 'c09_class_chunk_5', '$P::c09::class_chunk::<5, _>', crate='profiles', unwind=13, timeout=1500, mem_gb=10,
      funcs=['bidi::bidi_class_cp', 'BIDI_CLASS_TABLE (generated, 16.0.0, 1570 entries)'] + F_SEARCH,
      bound='every u32 in chunk 5 of 8 (the chunks partition 0..=u32::MAX); assigned code points compared, unassigned only executed'),
    H('C09', 'c09_class_chunk_6', '$P::c09::class_chunk::<6, _>', crate='profiles', unwind=13, timeout=1500, mem_gb=10,
      funcs=['bidi::bidi_class_cp', 'BIDI_CLASS_TABLE (generated, 16.0.0, 1570 entries)'] + F_SEARCH,
      bound='every u32 in chunk 6 of 8 (the chunks partition 0..=u32::MAX); assigned code points compared, unassigned only executed'),
    H('C09', 'c09_class_chunk_7', '$P::c09::class_chunk::<7, _>', crate='profiles', unwind=13, timeout=1500, mem_gb=10,
      funcs=['bidi::bidi_class_cp', 'BIDI_CLASS_TABLE (generated, 16.0.0, 1570 entries)'] + F_SEARCH,
      bound='every u32 in chunk 7 of 8 (the chunks partition 0..=u32::MAX); assigned code points compared, unassigned only executed'),
    H('C09', 'c09_bidi_rule_n4', '$P::c09::bidi_rule::<4, 16, _>', crate='profiles', unwind=7, stubs=('bidiw',), timeout=1500, mem_gb=16,
      funcs=['usernames::directionality_rule (via both username profiles)', 'bidi::has_rtl', 'bidi::satisfy_bidi_rule', 'bidi::is_valid_rtl_label', 'bidi::is_valid_ltr_label', 'bidi::bidi_class'],
      bound='every sequence of 0..=4 characters over the 23 Bidi classes (one witness character per class)'),
    H('C09', 'c09_bidi_rule_n5', '$P::c09::bidi_rule::<5, 20, _>', crate='profiles', unwind=8, stubs=('bidiw',), tiers=T, timeout=1500, mem_gb=12,
      funcs=['usernames::directionality_rule (via both username profiles)', 'bidi::has_rtl', 'bidi::satisfy_bidi_rule', 'bidi::is_valid_rtl_label', 'bidi::is_valid_ltr_label', 'bidi::bidi_class'],
      bound='every sequence of 0..=5 characters over the 23 Bidi classes (one witness character per class)'),
    H('C09', 'c09_bidi_rule_n7', '$P::c09::bidi_rule::<7, 28, _>', crate='profiles', unwind=10, stubs=('bidiw',), tiers=T, timeout=3400, mem_gb=16,
      funcs=['usernames::directionality_rule (via both username profiles)', 'bidi::has_rtl', 'bidi::satisfy_bidi_rule', 'bidi::is_valid_rtl_label', 'bidi::is_valid_ltr_label', 'bidi::bidi_class'],
      bound='every sequence of 0..=7 characters over the 23 Bidi classes (one witness character per class)'),
    H('C09', 'c09_bidi_rule_n6', '$P::c09::bidi_rule::<6, 24, _>', crate='profiles', unwind=9, stubs=('bidiw',), tiers=T, timeout=3400, mem_gb=24,
      funcs=['usernames::directionality_rule (via both username profiles)', 'bidi::has_rtl', 'bidi::satisfy_bidi_rule', 'bidi::is_valid_rtl_label', 'bidi::is_valid_ltr_label', 'bidi::bidi_class'],
      bound='every sequence of 0..=6 characters over the 23 Bidi classes (one witness character per class)'),
    # ---------------------------------------------------------------- C15 (in-crate: precis-tools)
    H('C15', 'c15_unassigned_k3', '$P::c15::unassigned::<3, 5, _>', crate='tools', unwind=7, stubs=('tools',), timeout=900,
      funcs=['UnassignedTableGen::process_entry', 'common::add_codepoints'],
      bound='3 ascending disjoint UnicodeData entries (each Single or Range, any code points <= U+10FFFD), any probe code point'),
    H('C15', 'c15_unassigned_k5', '$P::c15::unassigned::<5, 7, _>', crate='tools', unwind=9, stubs=('tools',), tiers=T, timeout=3000, mem_gb=16,
      funcs=['UnassignedTableGen::process_entry', 'common::add_codepoints'],
      bound='5 ascending disjoint UnicodeData entries, any probe code point'),
    H('C15', 'c15_bidi_compress_k3', '$P::c15::bidi_compress::<3, 6, _>', crate='tools', unwind=8, stubs=('tools',), timeout=900, mem_gb=16,
      funcs=['BidiClassGen::compress_into_ranges', 'bidi_class::add_range'],
      bound='3 ascending disjoint entries (Single or Range) with any of 3 classes, any probe code point'),
    H('C15', 'c15_bidi_compress_k4', '$P::c15::bidi_compress::<4, 8, _>', crate='tools', unwind=10, stubs=('tools',), tiers=T, timeout=3000, mem_gb=20,
      funcs=['BidiClassGen::compress_into_ranges', 'bidi_class::add_range'],
      bound='4 ascending disjoint entries with any of 3 classes, any probe code point'),
    H('C15', 'c15_width_collect', '$P::c15::width_collect', crate='tools', unwind=3, stubs=('tools',), timeout=600,
      funcs=['WidthMappingTableGen::process_entry'],
      bound='one entry, any code point, any mapping, tags none/wide/narrow/compat/font'),
    # ---------------------------------------------------------------- C05 / C06 / C07 / C08 / C16 (Freeform profiles, external crate)
    H('C05', 'c05_opaque_prepare_n1', '$P::pipe::opaque::<1, 4, 4, false, _>', unwind=5, stubs=('str', 'pipe4'), unwindset=pipe_us(1), timeout=1500, mem_gb=16,
      funcs=['Profile::prepare/enforce of OpaqueString', 'OpaqueString::additional_mapping_rule', 'StringClass::allows + context dispatch'], bound='strings of 0..=1 characters over SIGMA_PIPE (43 witnesses, closed under all pipeline operations)'),
    H('C05', 'c05_opaque_enforce_n1', '$P::pipe::opaque::<1, 4, 4, true, _>', unwind=5, stubs=('str', 'pipe4'), unwindset=pipe_us(1), timeout=1500, mem_gb=16,
      funcs=['Profile::prepare/enforce of OpaqueString', 'OpaqueString::additional_mapping_rule', 'StringClass::allows + context dispatch'], bound='strings of 0..=1 characters over SIGMA_PIPE (43 witnesses, closed under all pipeline operations)'),
    H('C05', 'c05_opaque_prepare_n2', '$P::pipe::opaque::<2, 8, 6, false, _>', unwind=8, stubs=('str', 'pipe'), unwindset=pipe_us(2), tiers=T, timeout=3500, mem_gb=44,
      funcs=['Profile::prepare/enforce of OpaqueString', 'OpaqueString::additional_mapping_rule', 'StringClass::allows + context dispatch'], bound='strings of 0..=2 characters over SIGMA_PIPE (43 witnesses, closed under all pipeline operations)'),
    H('C05', 'c05_opaque_enforce_n2', '$P::pipe::opaque::<2, 8, 6, true, _>', unwind=8, stubs=('str', 'pipe'), unwindset=pipe_us(2), tiers=T, timeout=3500, mem_gb=44,
      funcs=['Profile::prepare/enforce of OpaqueString', 'OpaqueString::additional_mapping_rule', 'StringClass::allows + context dispatch'], bound='strings of 0..=2 characters over SIGMA_PIPE (43 witnesses, closed under all pipeline operations)'),
    H('C05', 'c05_binding', '$P::pipe::binding_freeform', unwind=8, stubs=('str', 'pipe'), unwindset=pipe_us(2), timeout=900,
      funcs=['Rules methods of OpaqueString and Nickname (bindings and defaults)'], bound='concrete witnesses (binding of each rule)'),
    H('C06', 'c06_nickname_prepare_n1', '$P::pipe::nickname::<1, 4, 4, false, _>', unwind=5, stubs=('str', 'pipe4'), unwindset=pipe_us(1), timeout=1500, mem_gb=16,
      funcs=['Profile::prepare/enforce of Nickname', 'Nickname::apply_prepare_rules/apply_enforce_rules', 'profile::stabilize', 'nicknames::trim_spaces/find_disallowed_space', 'StringClass::allows'], bound='strings of 0..=1 characters over SIGMA_PIPE'),
    H('C06', 'c06_nickname_enforce_n1', '$P::pipe::nickname::<1, 4, 4, true, _>', unwind=5, stubs=('str', 'pipe4'), unwindset=pipe_us(1), tiers=T, timeout=1500, mem_gb=34,
      funcs=['Profile::prepare/enforce of Nickname', 'Nickname::apply_prepare_rules/apply_enforce_rules', 'profile::stabilize', 'nicknames::trim_spaces/find_disallowed_space', 'StringClass::allows'], bound='strings of 0..=1 characters over SIGMA_PIPE'),
    H('C06', 'c06_nickname_prepare_n2', '$P::pipe::nickname::<2, 8, 6, false, _>', unwind=8, stubs=('str', 'pipe'), unwindset=pipe_us(2), tiers=T, timeout=3500, mem_gb=44,
      funcs=['Profile::prepare/enforce of Nickname', 'Nickname::apply_prepare_rules/apply_enforce_rules', 'profile::stabilize', 'nicknames::trim_spaces/find_disallowed_space', 'StringClass::allows'], bound='strings of 0..=2 characters over SIGMA_PIPE'),
    H('C06', 'c06_nickname_enforce_n2', '$P::pipe::nickname::<2, 8, 6, true, _>', unwind=8, stubs=('str', 'pipe'), unwindset=pipe_us(2), tiers=T, timeout=3500, mem_gb=44,
      funcs=['Profile::prepare/enforce of Nickname', 'Nickname::apply_prepare_rules/apply_enforce_rules', 'profile::stabilize', 'nicknames::trim_spaces/find_disallowed_space', 'StringClass::allows'], bound='strings of 0..=2 characters over SIGMA_PIPE'),
    H('C06', 'c06_nickname_two_rounds_n1', '$P::pipe::nickname_two_rounds::<1, 4, 4, false, _>', unwind=5, stubs=('str', 'pipe4', 'stab2'), unwindset=pipe_us(1), tiers=T, timeout=1500, mem_gb=24,
      funcs=['Nickname::enforce', 'Nickname::apply_enforce_rules', 'Nickname::apply_prepare_rules', 'nicknames::trim_spaces/find_disallowed_space', 'FreeformClass::allows'],
      bound='strings of 0..=1 characters over SIGMA_PIPE; two applications of the rule function (S-STAB2)'),
    H('C07', 'c07_const_opaque_k0', '$P::pipe::compare_const_freeform::<1, 4, 4, false, 0, false, _>', unwind=5, stubs=('str', 'pipe4'), unwindset=pipe_us(1), tiers=T, timeout=1500, mem_gb=13,
      funcs=['OpaqueString::compare', 'OpaqueString::enforce'], bound='one operand any string of 0..=1 characters over SIGMA_PIPE, second operand "" (rejected: Invalid)'),
    H('C07', 'c07_const_opaque_k1', '$P::pipe::compare_const_freeform::<1, 4, 4, false, 1, true, _>', unwind=5, stubs=('str', 'pipe4'), unwindset=pipe_us(1), timeout=1500, mem_gb=13,
      funcs=['OpaqueString::compare', 'OpaqueString::enforce'], bound='one operand any string of 0..=1 characters over SIGMA_PIPE, first operand "a"'),
    H('C07', 'c07_const_opaque_k2', '$P::pipe::compare_const_freeform::<1, 4, 4, false, 2, true, _>', unwind=5, stubs=('str', 'pipe4'), unwindset=pipe_us(1), timeout=1500, mem_gb=13,
      funcs=['OpaqueString::compare', 'OpaqueString::enforce'], bound='one operand any string of 0..=1 characters over SIGMA_PIPE, first operand U+1100 (rejected: BadCodepoint)'),
    H('C07', 'c07_const_nickname_k0', '$P::pipe::compare_const_freeform::<1, 4, 4, true, 0, false, _>', unwind=5, stubs=('str', 'pipe4', 'stab2'), unwindset=pipe_us(1), tiers=T, timeout=1500, mem_gb=26,
      funcs=['Nickname::compare', 'Nickname::apply_compare_rules (two applications, S-STAB2)'], bound='one operand any string of 0..=1 characters over SIGMA_PIPE, second operand "" (rejected: Invalid)'),
    H('C07', 'c07_const_nickname_k1', '$P::pipe::compare_const_freeform::<1, 4, 4, true, 1, true, _>', unwind=5, stubs=('str', 'pipe4', 'stab2'), unwindset=pipe_us(1), tiers=T, timeout=1500, mem_gb=26,
      funcs=['Nickname::compare', 'Nickname::apply_compare_rules (two applications, S-STAB2)'], bound='one operand any string of 0..=1 characters over SIGMA_PIPE, first operand "a"'),
    H('C07', 'c07_const_nickname_k2', '$P::pipe::compare_const_freeform::<1, 4, 4, true, 2, true, _>', unwind=5, stubs=('str', 'pipe4', 'stab2'), unwindset=pipe_us(1), timeout=1500, mem_gb=13,
      funcs=['Nickname::compare', 'Nickname::apply_compare_rules (two applications, S-STAB2)'], bound='one operand any string of 0..=1 characters over SIGMA_PIPE, first operand U+1100 (rejected: BadCodepoint)'),
    H('C07', 'c07_const_mapped_k0', '$P::pipe_user::compare_const_username::<1, 4, 4, true, 0, false, _>', crate='profiles', unwind=5, stubs=('str', 'pipe4', 'pipe_bidi'), unwindset=pipe_us(1), tiers=T, timeout=1500, mem_gb=26,
      funcs=['UsernameCaseMapped::compare', 'enforce'], bound='one operand any string of 0..=1 characters over SIGMA_PIPE, second operand "" (rejected: Invalid)'),
    H('C07', 'c07_const_mapped_k1', '$P::pipe_user::compare_const_username::<1, 4, 4, true, 1, true, _>', crate='profiles', unwind=5, stubs=('str', 'pipe4', 'pipe_bidi'), unwindset=pipe_us(1), tiers=T, timeout=1500, mem_gb=26,
      funcs=['UsernameCaseMapped::compare', 'enforce'], bound='one operand any string of 0..=1 characters over SIGMA_PIPE, first operand "a"'),
    H('C07', 'c07_const_mapped_k2', '$P::pipe_user::compare_const_username::<1, 4, 4, true, 2, true, _>', crate='profiles', unwind=5, stubs=('str', 'pipe4', 'pipe_bidi'), unwindset=pipe_us(1), timeout=1500, mem_gb=13,
      funcs=['UsernameCaseMapped::compare', 'enforce'], bound='one operand any string of 0..=1 characters over SIGMA_PIPE, first operand U+0020 (rejected: BadCodepoint)'),
    H('C07', 'c07_const_preserved_k0', '$P::pipe_user::compare_const_username::<1, 4, 4, false, 0, false, _>', crate='profiles', unwind=5, stubs=('str', 'pipe4', 'pipe_bidi'), unwindset=pipe_us(1), tiers=T, timeout=1500, mem_gb=26,
      funcs=['UsernameCasePreserved::compare', 'enforce'], bound='one operand any string of 0..=1 characters over SIGMA_PIPE, second operand "" (rejected: Invalid)'),
    H('C07', 'c07_const_preserved_k1', '$P::pipe_user::compare_const_username::<1, 4, 4, false, 1, true, _>', crate='profiles', unwind=5, stubs=('str', 'pipe4', 'pipe_bidi'), unwindset=pipe_us(1), timeout=1500, mem_gb=26,
      funcs=['UsernameCasePreserved::compare', 'enforce'], bound='one operand any string of 0..=1 characters over SIGMA_PIPE, first operand "a"'),
    H('C07', 'c07_const_preserved_k2', '$P::pipe_user::compare_const_username::<1, 4, 4, false, 2, true, _>', crate='profiles', unwind=5, stubs=('str', 'pipe4', 'pipe_bidi'), unwindset=pipe_us(1), timeout=1500, mem_gb=13,
      funcs=['UsernameCasePreserved::compare', 'enforce'], bound='one operand any string of 0..=1 characters over SIGMA_PIPE, first operand U+0020 (rejected: BadCodepoint)'),
    H('C06', 'c06_witness_0', '$P::pipe::freeform_witnesses::<true, 0, _>', unwind=12, stubs=('str', 'pipe'), unwindset=pipe_us(2), timeout=1200, mem_gb=12,
      funcs=['Nickname::enforce (real stabilize loop)'], bound='one constant multi-character string (witness #0), decided by constant folding'),
    H('C06', 'c06_witness_1', '$P::pipe::freeform_witnesses::<true, 1, _>', unwind=12, stubs=('str', 'pipe'), unwindset=pipe_us(2), timeout=1200, mem_gb=12,
      funcs=['Nickname::enforce (real stabilize loop)'], bound='one constant multi-character string (witness #1), decided by constant folding'),
    H('C06', 'c06_witness_2', '$P::pipe::freeform_witnesses::<true, 2, _>', unwind=12, stubs=('str', 'pipe'), unwindset=pipe_us(2), timeout=1200, mem_gb=12,
      funcs=['Nickname::enforce (real stabilize loop)'], bound='one constant multi-character string (witness #2), decided by constant folding'),
    H('C06', 'c06_witness_3', '$P::pipe::freeform_witnesses::<true, 3, _>', unwind=12, stubs=('str', 'pipe'), unwindset=pipe_us(2), timeout=1200, mem_gb=12,
      funcs=['Nickname::enforce (real stabilize loop)'], bound='one constant multi-character string (witness #3), decided by constant folding'),
    H('C06', 'c06_witness_4', '$P::pipe::freeform_witnesses::<true, 4, _>', unwind=12, stubs=('str', 'pipe'), unwindset=pipe_us(2), timeout=1200, mem_gb=12,
      funcs=['Nickname::enforce (real stabilize loop)'], bound='one constant multi-character string (witness #4), decided by constant folding'),
    H('C06', 'c06_witness_5', '$P::pipe::freeform_witnesses::<true, 5, _>', unwind=12, stubs=('str', 'pipe'), unwindset=pipe_us(2), timeout=1200, mem_gb=12,
      funcs=['Nickname::enforce (real stabilize loop)'], bound='one constant multi-character string (witness #5), decided by constant folding'),
    H('C05', 'c05_witness_0', '$P::pipe::freeform_witnesses::<false, 0, _>', unwind=12, stubs=('str', 'pipe'), unwindset=pipe_us(2), timeout=1200, mem_gb=12,
      funcs=['OpaqueString::enforce'], bound='one constant multi-character string (witness #0), decided by constant folding'),
    H('C05', 'c05_witness_1', '$P::pipe::freeform_witnesses::<false, 1, _>', unwind=12, stubs=('str', 'pipe'), unwindset=pipe_us(2), timeout=1200, mem_gb=12,
      funcs=['OpaqueString::enforce'], bound='one constant multi-character string (witness #1), decided by constant folding'),
    H('C05', 'c05_witness_2', '$P::pipe::freeform_witnesses::<false, 2, _>', unwind=12, stubs=('str', 'pipe'), unwindset=pipe_us(2), timeout=1200, mem_gb=12,
      funcs=['OpaqueString::enforce'], bound='one constant multi-character string (witness #2), decided by constant folding'),
    H('C05', 'c05_witness_3', '$P::pipe::freeform_witnesses::<false, 3, _>', unwind=12, stubs=('str', 'pipe'), unwindset=pipe_us(2), timeout=1200, mem_gb=12,
      funcs=['OpaqueString::enforce'], bound='one constant multi-character string (witness #3), decided by constant folding'),
    H('C05', 'c05_witness_4', '$P::pipe::freeform_witnesses::<false, 4, _>', unwind=12, stubs=('str', 'pipe'), unwindset=pipe_us(2), timeout=1200, mem_gb=12,
      funcs=['OpaqueString::enforce'], bound='one constant multi-character string (witness #4), decided by constant folding'),
    H('C05', 'c05_witness_5', '$P::pipe::freeform_witnesses::<false, 5, _>', unwind=12, stubs=('str', 'pipe'), unwindset=pipe_us(2), timeout=1200, mem_gb=12,
      funcs=['OpaqueString::enforce'], bound='one constant multi-character string (witness #5), decided by constant folding'),
    H('C06', 'c06_nickname_rounds', '$P::pipe::nickname_rounds', unwind=10, stubs=('str', 'pipe'), unwindset=pipe_us(2), timeout=900,
      funcs=['Profile::prepare/enforce of Nickname', 'Nickname::apply_prepare_rules/apply_enforce_rules', 'profile::stabilize', 'nicknames::trim_spaces/find_disallowed_space', 'StringClass::allows'], bound='the concrete input "a\\u00b4", whose NFKC form introduces a space (second round needed)'),
    H('C07', 'c07_compare_opaque_n1', '$P::pipe::compare_opaque::<1, 4, 4, _>', unwind=5, stubs=('str', 'pipe4'), unwindset=pipe_us(1), tiers=T, timeout=1500, mem_gb=44,
      funcs=['OpaqueString::compare', 'OpaqueString::enforce'], bound='all pairs of strings of 0..=1 characters over SIGMA_PIPE'),
    H('C07', 'c07_compare_nickname_n1', '$P::pipe::compare_nickname::<1, 4, 4, _>', unwind=5, stubs=('str', 'pipe4'), unwindset=pipe_us(1), tiers=T, timeout=1500, mem_gb=20,
      funcs=['Nickname::compare', 'Nickname::apply_compare_rules', 'profile::stabilize', 'common::case_mapping_rule'],
      bound='all pairs of strings of 0..=1 characters over SIGMA_PIPE'),
    H('C07', 'c07_compare_opaque_n2', '$P::pipe::compare_opaque::<2, 8, 6, _>', unwind=8, stubs=('str', 'pipe'), unwindset=pipe_us(2), tiers=T, timeout=3500, mem_gb=44,
      funcs=['OpaqueString::compare', 'OpaqueString::enforce'], bound='all pairs of strings of 0..=2 characters over SIGMA_PIPE'),
    H('C07', 'c07_compare_nickname_n2', '$P::pipe::compare_nickname::<2, 8, 6, _>', unwind=8, stubs=('str', 'pipe'), unwindset=pipe_us(2), tiers=T, timeout=3500, mem_gb=44,
      funcs=['Nickname::compare', 'Nickname::apply_compare_rules', 'profile::stabilize', 'common::case_mapping_rule'],
      bound='all pairs of strings of 0..=2 characters over SIGMA_PIPE'),
    # ---------------------------------------------------------------- C04 + username parts of C07 / C08 / C16 (in-crate: precis-profiles)
    H('C04', 'c04_username_mapped_prepare_n1', '$P::pipe_user::username::<1, 4, 4, true, false, _>', crate='profiles', unwind=5, stubs=('str', 'pipe4', 'pipe_bidi'), unwindset=pipe_us(1), timeout=1500, mem_gb=16,
      funcs=['Profile::prepare/enforce of UsernameCaseMapped and UsernameCasePreserved', 'usernames::width_mapping_rule', 'usernames::directionality_rule', 'bidi::has_rtl/satisfy_bidi_rule', 'common::case_mapping_rule', 'IdentifierClass::allows + context dispatch'], bound='strings of 0..=1 characters over SIGMA_PIPE (43 witnesses), both username profiles'),
    H('C04', 'c04_username_preserved_prepare_n1', '$P::pipe_user::username::<1, 4, 4, false, false, _>', crate='profiles', unwind=5, stubs=('str', 'pipe4', 'pipe_bidi'), unwindset=pipe_us(1), timeout=1500, mem_gb=16,
      funcs=['Profile::prepare/enforce of UsernameCaseMapped and UsernameCasePreserved', 'usernames::width_mapping_rule', 'usernames::directionality_rule', 'bidi::has_rtl/satisfy_bidi_rule', 'common::case_mapping_rule', 'IdentifierClass::allows + context dispatch'], bound='strings of 0..=1 characters over SIGMA_PIPE (43 witnesses), both username profiles'),
    H('C04', 'c04_username_mapped_enforce_n1', '$P::pipe_user::username::<1, 4, 4, true, true, _>', crate='profiles', unwind=5, stubs=('str', 'pipe4', 'pipe_bidi'), unwindset=pipe_us(1), tiers=T, timeout=1500, mem_gb=24,
      funcs=['Profile::prepare/enforce of UsernameCaseMapped and UsernameCasePreserved', 'usernames::width_mapping_rule', 'usernames::directionality_rule', 'bidi::has_rtl/satisfy_bidi_rule', 'common::case_mapping_rule', 'IdentifierClass::allows + context dispatch'], bound='strings of 0..=1 characters over SIGMA_PIPE (43 witnesses), both username profiles'),
    H('C04', 'c04_username_preserved_enforce_n1', '$P::pipe_user::username::<1, 4, 4, false, true, _>', crate='profiles', unwind=5, stubs=('str', 'pipe4', 'pipe_bidi'), unwindset=pipe_us(1), tiers=T, timeout=1500, mem_gb=24,
      funcs=['Profile::prepare/enforce of UsernameCaseMapped and UsernameCasePreserved', 'usernames::width_mapping_rule', 'usernames::directionality_rule', 'bidi::has_rtl/satisfy_bidi_rule', 'common::case_mapping_rule', 'IdentifierClass::allows + context dispatch'], bound='strings of 0..=1 characters over SIGMA_PIPE (43 witnesses), both username profiles'),
    H('C04', 'c04_username_mapped_prepare_n2', '$P::pipe_user::username::<2, 8, 6, true, false, _>', crate='profiles', unwind=8, stubs=('str', 'pipe', 'pipe_bidi'), unwindset=pipe_us(2), tiers=T, timeout=3500, mem_gb=44,
      funcs=['Profile::prepare/enforce of UsernameCaseMapped and UsernameCasePreserved', 'usernames::width_mapping_rule', 'usernames::directionality_rule', 'bidi::has_rtl/satisfy_bidi_rule', 'common::case_mapping_rule', 'IdentifierClass::allows + context dispatch'], bound='strings of 0..=2 characters over SIGMA_PIPE (43 witnesses), both username profiles'),
    H('C04', 'c04_username_preserved_prepare_n2', '$P::pipe_user::username::<2, 8, 6, false, false, _>', crate='profiles', unwind=8, stubs=('str', 'pipe', 'pipe_bidi'), unwindset=pipe_us(2), tiers=T, timeout=3500, mem_gb=44,
      funcs=['Profile::prepare/enforce of UsernameCaseMapped and UsernameCasePreserved', 'usernames::width_mapping_rule', 'usernames::directionality_rule', 'bidi::has_rtl/satisfy_bidi_rule', 'common::case_mapping_rule', 'IdentifierClass::allows + context dispatch'], bound='strings of 0..=2 characters over SIGMA_PIPE (43 witnesses), both username profiles'),
    H('C04', 'c04_username_mapped_enforce_n2', '$P::pipe_user::username::<2, 8, 6, true, true, _>', crate='profiles', unwind=8, stubs=('str', 'pipe', 'pipe_bidi'), unwindset=pipe_us(2), tiers=T, timeout=3500, mem_gb=44,
      funcs=['Profile::prepare/enforce of UsernameCaseMapped and UsernameCasePreserved', 'usernames::width_mapping_rule', 'usernames::directionality_rule', 'bidi::has_rtl/satisfy_bidi_rule', 'common::case_mapping_rule', 'IdentifierClass::allows + context dispatch'], bound='strings of 0..=2 characters over SIGMA_PIPE (43 witnesses), both username profiles'),
    H('C04', 'c04_username_preserved_enforce_n2', '$P::pipe_user::username::<2, 8, 6, false, true, _>', crate='profiles', unwind=8, stubs=('str', 'pipe', 'pipe_bidi'), unwindset=pipe_us(2), tiers=T, timeout=3500, mem_gb=44,
      funcs=['Profile::prepare/enforce of UsernameCaseMapped and UsernameCasePreserved', 'usernames::width_mapping_rule', 'usernames::directionality_rule', 'bidi::has_rtl/satisfy_bidi_rule', 'common::case_mapping_rule', 'IdentifierClass::allows + context dispatch'], bound='strings of 0..=2 characters over SIGMA_PIPE (43 witnesses), both username profiles'),
    H('C04', 'c04_witness_J_caron', '$P::pipe_user::order_witnesses::<0, _>', crate='profiles', unwind=12, stubs=('str', 'pipe', 'pipe_bidi'), unwindset=pipe_us(2), timeout=1200, mem_gb=12,
      funcs=['enforce of both username profiles'], bound='one constant multi-character string (witness #0: J_caron), decided by constant folding'),
    H('C04', 'c04_witness_fullwidthA_acute', '$P::pipe_user::order_witnesses::<1, _>', crate='profiles', unwind=12, stubs=('str', 'pipe', 'pipe_bidi'), unwindset=pipe_us(2), timeout=1200, mem_gb=12,
      funcs=['enforce of both username profiles'], bound='one constant multi-character string (witness #1: fullwidthA_acute), decided by constant folding'),
    H('C04', 'c04_witness_ohm_a', '$P::pipe_user::order_witnesses::<2, _>', crate='profiles', unwind=12, stubs=('str', 'pipe', 'pipe_bidi'), unwindset=pipe_us(2), timeout=1200, mem_gb=12,
      funcs=['enforce of both username profiles'], bound='one constant multi-character string (witness #2: ohm_a), decided by constant folding'),
    H('C04', 'c04_witness_alef_1', '$P::pipe_user::order_witnesses::<3, _>', crate='profiles', unwind=12, stubs=('str', 'pipe', 'pipe_bidi'), unwindset=pipe_us(2), timeout=1200, mem_gb=12,
      funcs=['enforce of both username profiles'], bound='one constant multi-character string (witness #3: alef_1), decided by constant folding'),
    H('C04', 'c04_witness_alef_arabic0_1', '$P::pipe_user::order_witnesses::<4, _>', crate='profiles', unwind=12, stubs=('str', 'pipe', 'pipe_bidi'), unwindset=pipe_us(2), timeout=1200, mem_gb=12,
      funcs=['enforce of both username profiles'], bound='one constant multi-character string (witness #4: alef_arabic0_1), decided by constant folding'),
    H('C04', 'c04_witness_a_ideographic_space', '$P::pipe_user::order_witnesses::<5, _>', crate='profiles', unwind=12, stubs=('str', 'pipe', 'pipe_bidi'), unwindset=pipe_us(2), timeout=1200, mem_gb=12,
      funcs=['enforce of both username profiles'], bound='one constant multi-character string (witness #5: a_ideographic_space), decided by constant folding'),
    H('C04', 'c04_witness_e_acute_alef', '$P::pipe_user::order_witnesses::<6, _>', crate='profiles', unwind=12, stubs=('str', 'pipe', 'pipe_bidi'), unwindset=pipe_us(2), timeout=1200, mem_gb=12,
      funcs=['enforce of both username profiles'], bound='one constant multi-character string (witness #6: e_acute_alef), decided by constant folding'),
    H('C04', 'c04_witness_fwA_fwA_caron', '$P::pipe_user::order_witnesses::<7, _>', crate='profiles', unwind=12, stubs=('str', 'pipe', 'pipe_bidi'), unwindset=pipe_us(2), timeout=1200, mem_gb=12,
      funcs=['enforce of both username profiles'], bound='one constant multi-character string (witness #7: fwA_fwA_caron), decided by constant folding'),
    H('C04', 'c04_binding', '$P::pipe_user::binding_username', crate='profiles', unwind=8, stubs=('str', 'pipe', 'pipe_bidi'), unwindset=pipe_us(2), timeout=900,
      funcs=['Rules methods of both username profiles (bindings and defaults)'], bound='concrete witnesses (binding of each rule)'),
    H('C07', 'c07_compare_username_n1', '$P::pipe_user::compare_username::<1, 4, 4, _>', crate='profiles', unwind=5, stubs=('str', 'pipe4', 'pipe_bidi'), unwindset=pipe_us(1), tiers=T, timeout=1500, mem_gb=44,
      funcs=['UsernameCaseMapped::compare', 'UsernameCasePreserved::compare', 'enforce of both'], bound='all pairs of strings of 0..=1 characters over SIGMA_PIPE, both username profiles'),
    H('C07', 'c07_compare_username_n2', '$P::pipe_user::compare_username::<2, 8, 6, _>', crate='profiles', unwind=8, stubs=('str', 'pipe', 'pipe_bidi'), unwindset=pipe_us(2), tiers=T, timeout=3500, mem_gb=44,
      funcs=['UsernameCaseMapped::compare', 'UsernameCasePreserved::compare', 'enforce of both'], bound='all pairs of strings of 0..=2 characters over SIGMA_PIPE'),
    # ---------------------------------------------------------------- C08 (ii) no drift, C16 API forms
    H('C08', 'c08_no_drift_opaque_n1', '$P::pipe::no_drift_freeform::<1, 8, 8, false, _>', unwind=10, stubs=('str', 'pipe'), unwindset=pipe_us(2), timeout=1500, mem_gb=26,
      funcs=['OpaqueString::enforce'], bound='canonical forms (per the specification, at most 2 characters) of all strings of 0..=1 characters over SIGMA_PIPE'),
    H('C08', 'c08_no_drift_nickname_n1', '$P::pipe::no_drift_freeform::<1, 8, 8, true, _>', unwind=10, stubs=('str', 'pipe', 'stab1'), unwindset=pipe_us(2), timeout=1500, mem_gb=26,
      funcs=['Nickname::enforce'], bound='canonical forms (per the specification, at most 2 characters) of all strings of 0..=1 characters over SIGMA_PIPE'),
    H('C08', 'c08_no_drift_mapped_n1', '$P::pipe_user::no_drift_username::<1, 8, 8, true, _>', crate='profiles', unwind=10, stubs=('str', 'pipe', 'pipe_bidi'), unwindset=pipe_us(2), tiers=T, timeout=1500, mem_gb=42,
      funcs=['UsernameCaseMapped::enforce'], bound='canonical forms (per the specification) of all strings of 0..=1 characters over SIGMA_PIPE'),
    H('C08', 'c08_no_drift_preserved_n1', '$P::pipe_user::no_drift_username::<1, 8, 8, false, _>', crate='profiles', unwind=10, stubs=('str', 'pipe', 'pipe_bidi'), unwindset=pipe_us(2), tiers=T, timeout=1500, mem_gb=26,
      funcs=['UsernameCasePreserved::enforce'], bound='canonical forms (per the specification) of all strings of 0..=1 characters over SIGMA_PIPE'),
    H('C16', 'c16_form_opaque_f0', '$P::pipe::api_form_freeform::<1, 4, 4, false, 0, _>', unwind=5, stubs=('str', 'pipe4', 'once'), unwindset=pipe_us(1), timeout=1500, mem_gb=17,
      funcs=['OpaqueString: static prepare'], bound='strings of 0..=1 characters over SIGMA_PIPE'),
    H('C16', 'c16_form_opaque_f1', '$P::pipe::api_form_freeform::<1, 4, 4, false, 1, _>', unwind=5, stubs=('str', 'pipe4', 'once'), unwindset=pipe_us(1), timeout=1500, mem_gb=17,
      funcs=['OpaqueString: static enforce'], bound='strings of 0..=1 characters over SIGMA_PIPE'),
    H('C16', 'c16_form_opaque_f2', '$P::pipe::api_form_freeform::<1, 4, 4, false, 2, _>', unwind=5, stubs=('str', 'pipe4', 'once'), unwindset=pipe_us(1), tiers=T, timeout=1500, mem_gb=17,
      funcs=['OpaqueString: static compare(x, "a")'], bound='strings of 0..=1 characters over SIGMA_PIPE'),
    H('C16', 'c16_form_opaque_f3', '$P::pipe::api_form_freeform::<1, 4, 4, false, 3, _>', unwind=5, stubs=('str', 'pipe4', 'once'), unwindset=pipe_us(1), timeout=1500, mem_gb=17,
      funcs=['OpaqueString: enforce(String)'], bound='strings of 0..=1 characters over SIGMA_PIPE'),
    H('C16', 'c16_form_opaque_f4', '$P::pipe::api_form_freeform::<1, 4, 4, false, 4, _>', unwind=5, stubs=('str', 'pipe4', 'once'), unwindset=pipe_us(1), tiers=T, timeout=1500, mem_gb=17,
      funcs=['OpaqueString: enforce(Cow)'], bound='strings of 0..=1 characters over SIGMA_PIPE'),
    H('C16', 'c16_form_opaque_f5', '$P::pipe::api_form_freeform::<1, 4, 4, false, 5, _>', unwind=5, stubs=('str', 'pipe4', 'once'), unwindset=pipe_us(1), timeout=1500, mem_gb=17,
      funcs=['OpaqueString: enforce on an instance that already served another call'], bound='strings of 0..=1 characters over SIGMA_PIPE'),
    H('C16', 'c16_form_nickname_f0', '$P::pipe::api_form_freeform::<1, 4, 4, true, 0, _>', unwind=5, stubs=('str', 'pipe4', 'once', 'stab2'), unwindset=pipe_us(1), tiers=T, timeout=1500, mem_gb=17,
      funcs=['Nickname: static prepare'], bound='strings of 0..=1 characters over SIGMA_PIPE'),
    H('C16', 'c16_form_nickname_f1', '$P::pipe::api_form_freeform::<1, 4, 4, true, 1, _>', unwind=5, stubs=('str', 'pipe4', 'once', 'stab2'), unwindset=pipe_us(1), timeout=1500, mem_gb=17,
      funcs=['Nickname: static enforce'], bound='strings of 0..=1 characters over SIGMA_PIPE'),
    H('C16', 'c16_form_nickname_f2', '$P::pipe::api_form_freeform::<1, 4, 4, true, 2, _>', unwind=5, stubs=('str', 'pipe4', 'once', 'stab2'), unwindset=pipe_us(1), tiers=T, timeout=1500, mem_gb=17,
      funcs=['Nickname: static compare(x, "a")'], bound='strings of 0..=1 characters over SIGMA_PIPE'),
    H('C16', 'c16_form_nickname_f3', '$P::pipe::api_form_freeform::<1, 4, 4, true, 3, _>', unwind=5, stubs=('str', 'pipe4', 'once', 'stab2'), unwindset=pipe_us(1), tiers=T, timeout=1500, mem_gb=17,
      funcs=['Nickname: enforce(String)'], bound='strings of 0..=1 characters over SIGMA_PIPE'),
    H('C16', 'c16_form_nickname_f4', '$P::pipe::api_form_freeform::<1, 4, 4, true, 4, _>', unwind=5, stubs=('str', 'pipe4', 'once', 'stab2'), unwindset=pipe_us(1), tiers=T, timeout=1500, mem_gb=17,
      funcs=['Nickname: enforce(Cow)'], bound='strings of 0..=1 characters over SIGMA_PIPE'),
    H('C16', 'c16_form_nickname_f5', '$P::pipe::api_form_freeform::<1, 4, 4, true, 5, _>', unwind=5, stubs=('str', 'pipe4', 'once', 'stab2'), unwindset=pipe_us(1), tiers=T, timeout=1500, mem_gb=17,
      funcs=['Nickname: enforce on an instance that already served another call'], bound='strings of 0..=1 characters over SIGMA_PIPE'),
    H('C16', 'c16_form_mapped_f0', '$P::pipe_user::api_form_username::<1, 4, 4, true, 0, _>', crate='profiles', unwind=5, stubs=('str', 'pipe4', 'pipe_bidi', 'once'), unwindset=pipe_us(1), tiers=T, timeout=1500, mem_gb=17,
      funcs=['UsernameCaseMapped: static prepare'], bound='strings of 0..=1 characters over SIGMA_PIPE'),
    H('C16', 'c16_form_mapped_f1', '$P::pipe_user::api_form_username::<1, 4, 4, true, 1, _>', crate='profiles', unwind=5, stubs=('str', 'pipe4', 'pipe_bidi', 'once'), unwindset=pipe_us(1), tiers=T, timeout=1500, mem_gb=17,
      funcs=['UsernameCaseMapped: static enforce'], bound='strings of 0..=1 characters over SIGMA_PIPE'),
    H('C16', 'c16_form_mapped_f2', '$P::pipe_user::api_form_username::<1, 4, 4, true, 2, _>', crate='profiles', unwind=5, stubs=('str', 'pipe4', 'pipe_bidi', 'once'), unwindset=pipe_us(1), tiers=T, timeout=1500, mem_gb=17,
      funcs=['UsernameCaseMapped: static compare(x, "a")'], bound='strings of 0..=1 characters over SIGMA_PIPE'),
    H('C16', 'c16_form_mapped_f3', '$P::pipe_user::api_form_username::<1, 4, 4, true, 3, _>', crate='profiles', unwind=5, stubs=('str', 'pipe4', 'pipe_bidi', 'once'), unwindset=pipe_us(1), tiers=T, timeout=1500, mem_gb=17,
      funcs=['UsernameCaseMapped: enforce(String)'], bound='strings of 0..=1 characters over SIGMA_PIPE'),
    H('C16', 'c16_form_mapped_f4', '$P::pipe_user::api_form_username::<1, 4, 4, true, 4, _>', crate='profiles', unwind=5, stubs=('str', 'pipe4', 'pipe_bidi', 'once'), unwindset=pipe_us(1), tiers=T, timeout=1500, mem_gb=17,
      funcs=['UsernameCaseMapped: enforce(Cow)'], bound='strings of 0..=1 characters over SIGMA_PIPE'),
    H('C16', 'c16_form_preserved_f0', '$P::pipe_user::api_form_username::<1, 4, 4, false, 0, _>', crate='profiles', unwind=5, stubs=('str', 'pipe4', 'pipe_bidi', 'once'), unwindset=pipe_us(1), timeout=1500, mem_gb=17,
      funcs=['UsernameCasePreserved: static prepare'], bound='strings of 0..=1 characters over SIGMA_PIPE'),
    H('C16', 'c16_form_preserved_f1', '$P::pipe_user::api_form_username::<1, 4, 4, false, 1, _>', crate='profiles', unwind=5, stubs=('str', 'pipe4', 'pipe_bidi', 'once'), unwindset=pipe_us(1), tiers=T, timeout=1500, mem_gb=17,
      funcs=['UsernameCasePreserved: static enforce'], bound='strings of 0..=1 characters over SIGMA_PIPE'),
    H('C16', 'c16_form_preserved_f2', '$P::pipe_user::api_form_username::<1, 4, 4, false, 2, _>', crate='profiles', unwind=5, stubs=('str', 'pipe4', 'pipe_bidi', 'once'), unwindset=pipe_us(1), tiers=T, timeout=1500, mem_gb=17,
      funcs=['UsernameCasePreserved: static compare(x, "a")'], bound='strings of 0..=1 characters over SIGMA_PIPE'),
    H('C16', 'c16_form_preserved_f3', '$P::pipe_user::api_form_username::<1, 4, 4, false, 3, _>', crate='profiles', unwind=5, stubs=('str', 'pipe4', 'pipe_bidi', 'once'), unwindset=pipe_us(1), tiers=T, timeout=1500, mem_gb=17,
      funcs=['UsernameCasePreserved: enforce(String)'], bound='strings of 0..=1 characters over SIGMA_PIPE'),
    H('C16', 'c16_form_preserved_f4', '$P::pipe_user::api_form_username::<1, 4, 4, false, 4, _>', crate='profiles', unwind=5, stubs=('str', 'pipe4', 'pipe_bidi', 'once'), unwindset=pipe_us(1), tiers=T, timeout=1500, mem_gb=17,
      funcs=['UsernameCasePreserved: enforce(Cow)'], bound='strings of 0..=1 characters over SIGMA_PIPE'),
    # ---------------------------------------------------------------- C08 (i)
    H('C08', 'c08_casemap_targets', '$P::c08::casemap_targets', unwind=5, unwindset=(('16binary_search_by', 13), ('8try_fold', 5), ('18try_from_fn_erased', 5)), timeout=1500, mem_gb=16,
      funcs=['char::to_lowercase (real std tables: the mapping applied after validation by UsernameCaseMapped::enforce and the Nickname comparison rules)'],
      bound='every Unicode scalar value (complete); derived properties from the 6.3.0 oracle (C14)'),
]

# ---------------------------------------------------------------- C01 = dedicated harness + designated re-runs
# (reach='never': C01 counts panic/overflow/index checks; reachability is established by the source property's own check and by
#  the explicit covers, and the thorough tier of C01 then runs exactly the solver queries that were measured in the quick tier)
def _c01(src, tiers=Q, **kw):
    h = by_name(src)
    n = H('C01', 'c01_' + src.split('_', 1)[1], h.body, crate=h.crate, unwind=h.unwind, stubs=h.stubs, tiers=tiers, timeout=h.timeout,
          mem_gb=h.mem_gb, funcs=h.funcs, bound=h.bound + ' [panic/overflow/index/str-boundary checks only]',
          unwindset=h.unwindset, only_safety=True, expect_unsat_cover=h.expect_unsat_cover, reach='never', **kw)
    return n


def by_name(name):
    for h in HARNESSES:
        if h.name == name:
            return h
    return None


_RULES = ['zwnj', 'zwj', 'middle_dot', 'keraia', 'hebrew', 'katakana', 'arabic', 'ext_arabic', 'registry']
for _k, _r in enumerate(_RULES):
    HARNESSES.append(H('C01', 'c01_ctx_%s_n3' % _r, '$P::c01::ctx_rules::<3, 12, %d, _>' % _k, unwind=6, stubs=('ctx',), timeout=1200, mem_gb=12,
                       tiers=Q if _r in ('keraia', 'hebrew', 'arabic', 'ext_arabic') else T, reach='never',
                       funcs=['context::rule_* #%d (%s)' % (_k, _r)],
                       bound='labels of 0..=3 characters, every character any Unicode scalar value; offset ANY usize'))
HARNESSES.append(H('C01', 'c01_ctx_zwnj_n2', '$P::c01::ctx_rules::<2, 8, 0, _>', unwind=4, unwindset=(('25rule_zero_width_nonjoiner', 3), (r'10advance_by\w*\.0$', 2), ('10advance_by', 4)), stubs=('ctx',), timeout=1200, mem_gb=14, reach='never',
                   funcs=['context::rule_zero_width_nonjoiner'], bound='labels of 0..=2 characters, every character any Unicode scalar value; offset ANY usize'))
for _src, _t in [('c14_pairing', Q), ('c14_pred_is_space', Q), ('c02_any_class_n4', Q), ('c12_opaque_map_n3', T), ('c11_width_one', Q),
                 ('c13_stabilize_any_fn', Q), ('c05_opaque_enforce_n1', Q), ('c06_nickname_prepare_n1', Q), ('c07_const_nickname_k2', Q),
                 ('c09_bidi_rule_n4', T), ('c04_witness_J_caron', Q), ('c06_witness_2', Q),
                 ('c14_pred_is_unassigned', T), ('c12_nick_map_n3', T), ('c10_case_sigma_n2', T), ('c07_const_opaque_k1', T),
                 ('c11_width_map_n3', T), ('c10_case_sigma_n3', T), ('c04_username_preserved_enforce_n1', T),
                 ('c06_nickname_two_rounds_n1', T), ('c04_username_mapped_enforce_n1', T), ('c07_const_nickname_k1', T),
                 ('c12_nick_map_n5', T), ('c12_opaque_map_n5', T), ('c02_any_class_n6', T), ('c06_nickname_enforce_n2', T), ('c04_username_mapped_enforce_n2', T)]:
    HARNESSES.append(_c01(_src, _t))

# measured memory budgets (ulimit -v, GB) = 1.4 x the peak RSS observed on the unchanged tree + 2 (mem_gb.json); the budget only
# decides how many harnesses run side by side and when a run is declared out of memory (= inconclusive)
import json as _json
import os as _os
try:
    with open(_os.path.join(_os.path.dirname(_os.path.abspath(__file__)), 'mem_gb.json')) as _f:
        _MEM = _json.load(_f)
except (OSError, ValueError):
    _MEM = {}
for _h in HARNESSES:
    _src = _h.name
    if _h.name in _MEM:
        _h.mem_gb = _MEM[_h.name]
    elif _h.name.startswith('c01_'):
        for _k in _MEM:
            if _k.split('_', 1)[1] == _h.name.split('_', 1)[1]:
                _h.mem_gb = _MEM[_k]

PROPS = ['C%02d' % i for i in range(1, 19)]


# `deep`: harnesses that were never seen to finish on the unchanged tree within their budget on this box (two symbolic characters
# through a whole pipeline, both compare operands symbolic).  They are not part of the registered quick/thorough commands, because a
# harness that runs out of time or memory makes a check exit 2; `./check <ID> --tier deep` runs them on top of the thorough tier.
DEEP = {
    'c04_username_mapped_prepare_n2', 'c04_username_preserved_prepare_n2', 'c04_username_mapped_enforce_n2', 'c04_username_preserved_enforce_n2',
    'c05_opaque_prepare_n2', 'c05_opaque_enforce_n2', 'c06_nickname_prepare_n2', 'c06_nickname_enforce_n2',
    'c07_compare_opaque_n2', 'c07_compare_nickname_n2', 'c07_compare_username_n2',
    'c01_nickname_enforce_n2', 'c01_username_mapped_enforce_n2',
    'c06_nickname_enforce_n1', 'c07_compare_nickname_n1', 'c07_compare_username_n1', 'c08_no_drift_mapped_n1',
    'c02_std_class_n2', 'c02_std_class_n3', 'c01_ctx_registry_n3',
}
for _h in HARNESSES:
    if _h.name in DEEP:
        _h.tiers = ('deep',)
assert DEEP <= {h.name for h in HARNESSES}
# the static-compare form (FORM == 2) returns before the "COVER: accepted" witness of the other forms: in those instantiations the
# witness is compiled-out dead code and is expected to be unsatisfiable (their own witness is "COVER(f2): equal")
for _h in HARNESSES:
    if _h.name.startswith('c16_form_') and _h.name.endswith('_f2'):
        _h.expect_unsat_cover = tuple(_h.expect_unsat_cover) + ('COVER: accepted',)


def for_prop(prop, tier):
    if tier == 'deep':
        return [h for h in HARNESSES if h.prop == prop]
    return [h for h in HARNESSES if h.prop == prop and tier in h.tiers]


def by_name(name):
    for h in HARNESSES:
        if h.name == name:
            return h
    return None


def gen_proofs(crate):
    """Rust source: kani wrappers + native dispatch for one harness crate."""
    out = ['// @generated by /verif/harnesses.py -- do not edit']
    hs = [h for h in HARNESSES if h.crate == crate]
    out.append('#[cfg(kani)]')
    out.append('#[allow(unused_imports, dead_code)]')
    out.append('pub mod proofs_%s {' % crate)
    for h in hs:
        out.append('    #[kani::proof]')
        if h.unwind is not None:
            out.append('    #[kani::unwind(%d)]' % h.unwind)
        for t, r in h.stub_pairs():
            out.append('    #[kani::stub(%s, %s)]' % (t, r))
        out.append('    pub fn %s() {' % h.name)
        out.append('        let mut s = %s::sup::KSrc;' % CRATE_PREFIX[crate])
        out.append('        %s(&mut s);' % h.body.replace('$P', CRATE_PREFIX[crate]))
        out.append('    }')
    out.append('}')
    out.append('#[cfg(not(kani))]')
    out.append('#[allow(dead_code)]')
    out.append('/// native replay dispatch (generated)')
    out.append('pub fn dispatch(name: &str, s: &mut %s::sup::RSrc) -> bool {' % CRATE_PREFIX[crate])
    out.append('')
    for h in hs:
        out.append('    if name == "%s" {' % h.name)
        out.append('        %s(s);' % h.body.replace('$P', CRATE_PREFIX[crate]))
        out.append('        return true;')
        out.append('    }')
    out.append('    let _ = s;')
    out.append('    false')
    out.append('}')
    return '\n'.join(out) + '\n'
