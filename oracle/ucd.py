"""Independent reader of the Unicode Character Database files shipped in /repo.

Shares no code with precis-tools.  Everything is recomputed from the raw text
files on every run.  Values are kept per code point in flat Python lists of
length 0x110000 so that the oracle is a plain total function of the code point.
"""
import os
import unicodedata

NCP = 0x110000


def _strip(line):
    i = line.find('#')
    if i >= 0:
        line = line[:i]
    return line.strip()


class UnicodeData:
    """UnicodeData.txt: general category, ccc, bidi class, decomposition."""

    def __init__(self, path):
        self.path = path
        self.gc = ['Cn'] * NCP
        self.ccc = [0] * NCP
        self.bidi = [None] * NCP          # None = not listed
        self.decomp_tag = [None] * NCP
        self.decomp_map = [None] * NCP
        self.listed = [False] * NCP
        self.lines = 0
        self.entries = []                 # (start, end, gc, ccc, bidi, tag, mapping) in file order
        first = None
        with open(path, encoding='utf-8') as f:
            for raw in f:
                raw = raw.rstrip('\n')
                if not raw:
                    continue
                self.lines += 1
                fld = raw.split(';')
                cp = int(fld[0], 16)
                name = fld[1]
                if name.endswith(', First>'):
                    assert first is None, 'nested First'
                    first = (cp, fld)
                    continue
                if name.endswith(', Last>'):
                    assert first is not None, 'Last without First'
                    start = first[0]
                    assert first[1][2] == fld[2]
                    first = None
                else:
                    assert first is None, 'First without Last'
                    start = cp
                end = cp
                gc, ccc, bidi, dec = fld[2], int(fld[3]), fld[4], fld[5]
                tag, mapping = None, None
                if dec:
                    parts = dec.split()
                    if parts[0].startswith('<'):
                        tag = parts[0][1:-1]
                        parts = parts[1:]
                    mapping = [int(x, 16) for x in parts]
                self.entries.append((start, end, gc, ccc, bidi, tag, mapping))
                for c in range(start, end + 1):
                    assert not self.listed[c], 'duplicate %x' % c
                    self.listed[c] = True
                    self.gc[c] = gc
                    self.ccc[c] = ccc
                    self.bidi[c] = bidi
                    self.decomp_tag[c] = tag
                    self.decomp_map[c] = mapping
        assert first is None


def read_props(path, wanted=None):
    """Generic `range ; Property` file (PropList, DerivedCoreProperties,
    Scripts, HangulSyllableType, DerivedJoiningType).  Returns
    {property: list[bool] * NCP} and the number of data lines."""
    out = {}
    n = 0
    with open(path, encoding='utf-8') as f:
        for raw in f:
            line = _strip(raw)
            if not line:
                continue
            n += 1
            rng, prop = [x.strip() for x in line.split(';')[:2]]
            if wanted is not None and prop not in wanted:
                continue
            if '..' in rng:
                a, b = rng.split('..')
                a, b = int(a, 16), int(b, 16)
            else:
                a = b = int(rng, 16)
            arr = out.get(prop)
            if arr is None:
                arr = out[prop] = [False] * NCP
            for c in range(a, b + 1):
                arr[c] = True
    if wanted is not None:
        for w in wanted:
            out.setdefault(w, [False] * NCP)
    return out, n


def runs(fn, lo=0, hi=NCP - 1):
    """Maximal runs (start, end, value) of fn over lo..=hi."""
    res = []
    start = lo
    cur = fn(lo)
    for c in range(lo + 1, hi + 1):
        v = fn(c)
        if v != cur:
            res.append((start, c - 1, cur))
            start, cur = c, v
    res.append((start, hi, cur))
    return res


def runs_of_list(lst):
    res = []
    start = 0
    cur = lst[0]
    n = len(lst)
    for c in range(1, n):
        v = lst[c]
        if v != cur:
            res.append((start, c - 1, cur))
            start, cur = c, v
    res.append((start, n - 1, cur))
    return res


# ----------------------------------------------------------------------------
# RFC 8264 section 8/9 over the 6.3.0 data
# ----------------------------------------------------------------------------

PVALID, SPEC_PVAL, SPEC_DIS, CONTEXTJ, CONTEXTO, DISALLOWED, UNASSIGNED = range(7)
DPV_NAMES = ['PValid', 'SpecClassPval', 'SpecClassDis', 'ContextJ', 'ContextO',
             'Disallowed', 'Unassigned']

# RFC 8264 9.6 (= RFC 5892 2.6)
EXCEPTIONS = {}
for c in (0x00DF, 0x03C2, 0x06FD, 0x06FE, 0x0F0B, 0x3007):
    EXCEPTIONS[c] = PVALID
for c in [0x00B7, 0x0375, 0x05F3, 0x05F4, 0x30FB] + list(range(0x0660, 0x066A)) + list(range(0x06F0, 0x06FA)):
    EXCEPTIONS[c] = CONTEXTO
for c in [0x0640, 0x07FA, 0x302E, 0x302F, 0x3031, 0x3032, 0x3033, 0x3034, 0x3035, 0x303B]:
    EXCEPTIONS[c] = DISALLOWED

# categories of the decision list; the id/free outcome for the *_DIS/*_PVAL ones
CAT_NAMES = ['Exceptions', 'BackwardCompatible', 'Unassigned', 'ASCII7', 'JoinControl',
             'OldHangulJamo', 'PrecisIgnorableProperties', 'Controls', 'HasCompat',
             'LetterDigits', 'OtherLetterDigits', 'Spaces', 'Symbols', 'Punctuation', 'Other']


class Core63:
    """All 6.3.0 facts precis-core depends on, per code point."""

    def __init__(self, ucd_dir):
        self.dir = ucd_dir
        self.ud = UnicodeData(os.path.join(ucd_dir, 'UnicodeData.txt'))
        pl, self.n_proplist = read_props(os.path.join(ucd_dir, 'PropList.txt'),
                                         ['Join_Control', 'Noncharacter_Code_Point'])
        dcp, self.n_dcp = read_props(os.path.join(ucd_dir, 'DerivedCoreProperties.txt'),
                                     ['Default_Ignorable_Code_Point'])
        hst, self.n_hst = read_props(os.path.join(ucd_dir, 'HangulSyllableType.txt'), ['L', 'V', 'T'])
        sc, self.n_sc = read_props(os.path.join(ucd_dir, 'Scripts.txt'),
                                   ['Greek', 'Hebrew', 'Hiragana', 'Katakana', 'Han'])
        jt, self.n_jt = read_props(os.path.join(ucd_dir, 'extracted', 'DerivedJoiningType.txt'),
                                   ['D', 'L', 'R', 'T'])
        self.join_control = pl['Join_Control']
        self.nonchar = pl['Noncharacter_Code_Point']
        self.default_ignorable = dcp['Default_Ignorable_Code_Point']
        self.hst = hst
        self.script = sc
        self.jt = jt
        self._dpv = None

    # --- RFC 8264 9.x predicates -------------------------------------------
    def has_compat(self, c):
        # toNFKC(cp) != cp, restricted to code points assigned in 6.3.0 (normalization
        # stability: later Unicode versions agree on them).  Unassigned code points are
        # decided earlier in the list and never reach this predicate.
        if 0xD800 <= c <= 0xDFFF:
            return False
        if not self.ud.listed[c]:
            return False
        ch = chr(c)
        return unicodedata.normalize('NFKC', ch) != ch

    def category(self, c):
        gc = self.ud.gc[c]
        if c in EXCEPTIONS:
            return 0
        # BackwardCompatible (G) is empty
        if gc == 'Cn' and not self.nonchar[c]:
            return 2
        if 0x21 <= c <= 0x7E:
            return 3
        if self.join_control[c]:
            return 4
        if self.hst['L'][c] or self.hst['V'][c] or self.hst['T'][c]:
            return 5
        if self.default_ignorable[c] or self.nonchar[c]:
            return 6
        if gc == 'Cc':
            return 7
        if self.has_compat(c):
            return 8
        if gc in ('Ll', 'Lu', 'Lo', 'Nd', 'Lm', 'Mn', 'Mc'):
            return 9
        if gc in ('Lt', 'Nl', 'No', 'Me'):
            return 10
        if gc == 'Zs':
            return 11
        if gc in ('Sm', 'Sc', 'Sk', 'So'):
            return 12
        if gc in ('Pc', 'Pd', 'Ps', 'Pe', 'Pi', 'Pf', 'Po'):
            return 13
        return 14

    PRED_NAMES = ['unassigned', 'ascii7', 'join_control', 'old_hangul_jamo', 'ignorable', 'control', 'has_compat',
                  'letter_digit', 'other_letter_digit', 'space', 'symbol', 'punctuation']

    def pred_mask(self, c):
        """every RFC 8264 section 9 predicate evaluated independently (bit i = PRED_NAMES[i])"""
        gc = self.ud.gc[c]
        m = 0
        if gc == 'Cn' and not self.nonchar[c]:
            m |= 1
        if 0x21 <= c <= 0x7E:
            m |= 2
        if self.join_control[c]:
            m |= 4
        if self.hst['L'][c] or self.hst['V'][c] or self.hst['T'][c]:
            m |= 8
        if self.default_ignorable[c] or self.nonchar[c]:
            m |= 16
        if gc == 'Cc':
            m |= 32
        if self.has_compat(c):
            m |= 64
        if gc in ('Ll', 'Lu', 'Lo', 'Nd', 'Lm', 'Mn', 'Mc'):
            m |= 128
        if gc in ('Lt', 'Nl', 'No', 'Me'):
            m |= 256
        if gc == 'Zs':
            m |= 512
        if gc in ('Sm', 'Sc', 'Sk', 'So'):
            m |= 1024
        if gc in ('Pc', 'Pd', 'Ps', 'Pe', 'Pi', 'Pf', 'Po'):
            m |= 2048
        return m

    def dpv_pair(self, c):
        """(IdentifierClass value, FreeformClass value)"""
        cat = self.category(c)
        if cat == 0:
            v = EXCEPTIONS[c]
            return (v, v)
        if cat == 2:
            return (UNASSIGNED, UNASSIGNED)
        if cat == 3:
            return (PVALID, PVALID)
        if cat == 4:
            return (CONTEXTJ, CONTEXTJ)
        if cat in (5, 6, 7, 14):
            return (DISALLOWED, DISALLOWED)
        if cat == 9:
            return (PVALID, PVALID)
        if cat in (8, 10, 11, 12, 13):
            return (SPEC_DIS, SPEC_PVAL)
        raise AssertionError(cat)

    def dpv_table(self):
        if self._dpv is None:
            self._dpv = [self.dpv_pair(c) for c in range(NCP)]
        return self._dpv


def read_iana_csv(path):
    """precis-tables-6.3.0.csv -> list of (start, end, [names])"""
    rows = []
    with open(path, encoding='utf-8') as f:
        next(f)
        for raw in f:
            raw = raw.rstrip('\r\n')
            if not raw:
                continue
            cps, props, _ = raw.split(',', 2)
            if '-' in cps:
                a, b = cps.split('-')
                a, b = int(a, 16), int(b, 16)
            else:
                a = b = int(cps, 16)
            rows.append((a, b, [p.strip() for p in props.split(' or ')]))
    return rows
