//! Native helper for oracle generation (repo toolchain, same std / unicode-normalization versions
//! as the code under test).  It only evaluates library functions on CONCRETE witnesses; nothing it
//! prints decides a property -- the generated models are re-validated by Kani harnesses.
//!
//!   native-oracle case <hex> <hex> ...      -> "<cp> <is_lowercase> <is_uppercase> <lower cps...>"
//!   native-oracle norm <file>               -> for each line of space separated hex code points:
//!                                              "<input> | <nfc> | <nfkc>"
//!   native-oracle hascompat                 -> runs of code points with toNFKC(cp) != cp
use unicode_normalization::UnicodeNormalization;

fn hexs(s: &str) -> String {
    s.chars().map(|c| format!("{:X}", c as u32)).collect::<Vec<_>>().join(" ")
}

fn main() {
    let args: Vec<String> = std::env::args().collect();
    match args.get(1).map(|s| s.as_str()) {
        Some("case") => {
            for h in &args[2..] {
                let cp = u32::from_str_radix(h, 16).unwrap();
                let c = char::from_u32(cp).unwrap();
                let lower: Vec<String> = c.to_lowercase().map(|x| format!("{:X}", x as u32)).collect();
                println!("{:X} {} {} {}", cp, c.is_lowercase() as u8, c.is_uppercase() as u8, lower.join(" "));
            }
        }
        Some("norm") => {
            let text = std::fs::read_to_string(&args[2]).unwrap();
            for line in text.lines() {
                let s: String = line
                    .split_whitespace()
                    .map(|h| char::from_u32(u32::from_str_radix(h, 16).unwrap()).unwrap())
                    .collect();
                let nfc: String = s.nfc().collect();
                let nfkc: String = s.nfkc().collect();
                println!("{} | {} | {} | {} {}", hexs(&s), hexs(&nfc), hexs(&nfkc),
                    unicode_normalization::is_nfc(&s) as u8, unicode_normalization::is_nfkc(&s) as u8);
            }
        }
        Some("info") => {
            // per character: lower | is_lowercase | nfd | nfkd
            for h in &args[2..] {
                let cp = u32::from_str_radix(h, 16).unwrap();
                let c = char::from_u32(cp).unwrap();
                let cs = c.to_string();
                let lower: String = c.to_lowercase().collect();
                let nfd: String = cs.nfd().collect();
                let nfkd: String = cs.nfkd().collect();
                println!("{:X} | {} | {} | {} | {}", cp, hexs(&lower), c.is_lowercase() as u8, hexs(&nfd), hexs(&nfkd));
            }
        }
        Some("hascompat") => {
            let mut start: Option<u32> = None;
            for cp in 0..=0x110000u32 {
                let hc = match char::from_u32(cp) {
                    Some(c) => {
                        let cs = c.to_string();
                        cs != cs.nfkc().collect::<String>()
                    }
                    None => false,
                };
                match (hc, start) {
                    (true, None) => start = Some(cp),
                    (false, Some(s)) => {
                        println!("{:X} {:X}", s, cp - 1);
                        start = None;
                    }
                    _ => {}
                }
            }
        }
        _ => {
            eprintln!("usage: native-oracle case|norm|hascompat ...");
            std::process::exit(2);
        }
    }
}
