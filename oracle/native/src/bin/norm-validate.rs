//! Stage 2 of oracle generation: the rule-based normalizer model (kani/norm_model.rs + generated tables) must agree
//! with the REAL unicode-normalization crate on every string over the pipeline alphabet up to length K,
//! and the alphabet must be closed under normalization.  Exit 0 = agrees; prints the number of comparisons.
use unicode_normalization::UnicodeNormalization;

include!(concat!(env!("PRECIS_VERIF_DIR"), "/build/gen.stage/oracle.rs"));
#[allow(dead_code)]
mod norm_model {
    include!(concat!(env!("PRECIS_VERIF_DIR"), "/kani/norm_model.rs"));
}

fn main() {
    let k: usize = std::env::args().nth(1).map(|s| s.parse().unwrap()).unwrap_or(3);
    let sigma: Vec<char> = oracle::SIGMA_PIPE.to_vec();
    let mut idx = vec![0usize; k];
    let mut count: u64 = 0;
    for len in 0..=k {
        for i in idx.iter_mut() {
            *i = 0;
        }
        loop {
            let s: String = idx[..len].iter().map(|&i| sigma[i]).collect();
            for compat in [false, true] {
                let real: String = if compat { s.nfkc().collect() } else { s.nfc().collect() };
                let mut out = ['\0'; norm_model::MAXOUT];
                let n = norm_model::normalize(&s, compat, &mut out);
                let model: Option<String> = n.map(|n| out[..n].iter().collect());
                if model.as_deref() != Some(real.as_str()) {
                    println!("MISMATCH {:?} compat={} real={:?} model={:?}", s, compat, real, model);
                    std::process::exit(1);
                }
                let quick = if compat { unicode_normalization::is_nfkc(&s) } else { unicode_normalization::is_nfc(&s) };
                if quick != (real == s) {
                    println!("QUICKCHECK {:?} compat={}", s, compat);
                    std::process::exit(1);
                }
                for c in real.chars() {
                    if !sigma.contains(&c) {
                        println!("NOT CLOSED {:?} -> {:?}", s, real);
                        std::process::exit(1);
                    }
                }
                count += 1;
            }
            let mut p = 0;
            while p < len {
                idx[p] += 1;
                if idx[p] < sigma.len() {
                    break;
                }
                idx[p] = 0;
                p += 1;
            }
            if p == len {
                break;
            }
        }
    }
    println!("OK {}", count);
}
