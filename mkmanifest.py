#!/usr/bin/env python3
"""Writes MANIFEST.json from the tables below (kept next to the harness registry so they stay in sync)."""
import json
import os
import sys

sys.path.insert(0, os.path.dirname(os.path.abspath(__file__)))
import harnesses as HR

CLAIMS = {
    'C18': dict(
        text='Bounded model checking of the compiled comparison impls with fully symbolic 32-bit inputs. The code is loop-free, '
             'so the SAT verdict covers every entry (single/range, start<=end) and every code point: complete, not sampled.',
        note='Kani/CBMC/CaDiCaL trusted; entries with start > end are outside the property.',
        design='4 (C18)', technique='Kani/CBMC bounded model checking of real code (loop-free, full 32-bit symbolic inputs)'),
    'C13': dict(
        text='stabilize() is symbolically executed with f ranging over ALL functions on 5 distinct strings into (5 strings + typed '
             'failure), every start string, results borrowed or owned; asserts the exact accept/reject/call-count contract. '
             'Bound: 5 states covers convergence after 0..3 steps, cycles of length 2..5 and a 5-chain.',
        note='f is a table-driven closure (deterministic, state-free); strings are 0..4 bytes; unwinding assertions on.',
        design='4 (C13)', technique='Kani/CBMC bounded model checking of real code; rule function as a symbolic transition table'),
}

NOT_YET = 'check not built yet in this session (see DESIGN.md section 4 for the planned harness)'
NOT_APPLICABLE = {
    'C17': 'the registry CSV parser is regex + BufReader<File>: Kani ICEs while compiling the regex crate (rvalue.rs:1009) and '
           'symbolic execution of regex-automata / file I/O is outside reach of the installed solver-based tools (DESIGN.md 6)',
}


def main():
    checks = []
    for pid in HR.PROPS:
        if pid not in CLAIMS or not HR.for_prop(pid, 'quick'):
            continue
        c = CLAIMS[pid]
        checks.append({
            'property_id': pid,
            'quick_cmd': './check %s --tier quick' % pid,
            'thorough_cmd': './check %s --tier thorough' % pid,
            'evidence_file': 'evidence/%s.json' % pid,
            'replay_cmd_template': './check %s --replay {path}' % pid,
            'engine': 'kani',
            'level_claimed': {'category': 'model_checking', 'text': c['text'], 'design_ref': 'DESIGN.md section ' + c['design']},
            'level_note': c['note'],
            'technique': c['technique'],
        })
    na = []
    for pid in HR.PROPS:
        if pid in CLAIMS and HR.for_prop(pid, 'quick'):
            continue
        na.append({'property_id': pid, 'reason': NOT_APPLICABLE.get(pid, NOT_YET)})
    man = {
        'version': 1,
        'setup_cmd': './setup.sh',
        'hooks': {
            'guard': 'cfg(kani) (set by cargo kani) or --cfg precis_verif (native replay builds only)',
            'enable': 'checks run `cargo kani` (which sets cfg(kani)) with PRECIS_VERIF_DIR=/verif; native replay builds use '
                      'RUSTFLAGS="--cfg precis_verif"; an ordinary cargo build/test sees none of the hook lines',
            'baseline_off_cmd': 'cd /repo && cargo test --workspace --no-fail-fast --offline',
            'source_commits': HOOK_COMMITS,
            'add_only': True,
        },
        'engines': [
            {'name': 'kani', 'path': 'check', 'serves_properties': [c['property_id'] for c in checks],
             'kind_free_text': 'Kani 0.68 -> CBMC 6.11 (CaDiCaL): bounded model checking of the compiled Rust of /repo; harness '
                               'bodies in kani/bodies/*.rs, registry harnesses.py, runner lib/runner.py, oracle tables regenerated '
                               'from the raw UCD files by oracle/gen.py; counterexamples replayed natively (kani/replay)'},
        ],
        'checks': checks,
        'not_applicable': na,
        'notes': 'All checks: exit 0 = holds within the stated bounds; exit 1 = VIOLATION reproduced natively; exit 2 = inconclusive '
                 '(timeout, OOM, unwinding/model assertion, vacuous harness, non-reproducing counterexample) and is never reported as success.',
    }
    with open(os.path.join(os.path.dirname(os.path.abspath(__file__)), 'MANIFEST.json'), 'w') as f:
        json.dump(man, f, indent=1)
        f.write('\n')


HOOK_COMMITS = []

if __name__ == '__main__':
    main()
