#!/usr/bin/env python3
"""Writes MANIFEST.json from the tables below (kept next to the harness registry so they stay in sync)."""
import json
import os
import sys

sys.path.insert(0, os.path.dirname(os.path.abspath(__file__)))
import harnesses as HR

CLAIMS = {
    'C18': dict(
        text='Bounded model checking of the compiled comparison impls with fully symbolic 32-bit inputs. The code is loop-free, '
             'so the SAT verdict covers every entry (single/range, start<=end) and every code point: complete, not sampled.',
        note='Kani/CBMC/CaDiCaL trusted; entries with start > end are outside the property.',
        design='4 (C18)', technique='Kani/CBMC bounded model checking of real code (loop-free, full 32-bit symbolic inputs)'),
    'C13': dict(
        text='stabilize() is symbolically executed with f ranging over ALL functions on 5 distinct strings into (5 strings + typed '
             'failure), every start string, results borrowed or owned; asserts the exact accept/reject/call-count contract. '
             'Bound: 5 states covers convergence after 0..3 steps, cycles of length 2..5 and a 5-chain.',
        note='f is a table-driven closure (deterministic, state-free); strings are 0..4 bytes; unwinding assertions on.',
        design='4 (C13)', technique='Kani/CBMC bounded model checking of real code; rule function as a symbolic transition table'),
}

CLAIMS.update({
    'C12': dict(
        text='Both space rules are executed symbolically on strings of up to 3 (thorough: 5) characters where every character is ANY '
             'Unicode scalar value (all mixes of 1-4 byte encodings), against an oracle computed on the character array (map Zs, trim, '
             'collapse); the real generated Zs table and binary search are in the loop; idempotence asserted. Found two real defects.',
        note='S-STR fixed-capacity String model; Zs oracle recomputed from UnicodeData 16.0.0; strings longer than the bound are outside the claim.',
        design='4 (C12)', technique='Kani/CBMC bounded model checking of real code over fully symbolic UTF-8 strings'),
    'C10': dict(
        text='Layer A: case_mapping_rule on exactly one character, every scalar value, with the real std case tables (per-loop unwind '
             'bounds confirmed by unwinding assertions). Layer B: strings of up to 3 (thorough: 4) characters over a 23-witness alphabet '
             'covering every cased/uncased/titlecase/multi-char/length-changing class, std tables replaced by a model that a third '
             'harness proves equal to real std on every witness. Oracle: per-character full lowercase mapping, position independent.',
        note='S-STR, S-CASE stubs; representativeness of the witness alphabet is an argument, the solver-level claim is over the alphabet; '
             'Layer A covers every scalar value for single characters.',
        design='4 (C10)', technique='Kani/CBMC bounded model checking of real code; two layers (real tables per character, stubbed tables on strings)'),
    'C11': dict(
        text='Layer A: width_mapping_rule on exactly one character, every scalar value, real generated 16.0.0 table and binary search, '
             'against the <wide>/<narrow> mappings recomputed from UnicodeData.txt. Layer B: strings of up to 3 (thorough: 4) fully '
             'symbolic characters with the table lookup replaced by the oracle function: per-character, position independent, idempotent.',
        note='S-STR, S-WIDTH stubs (S-WIDTH is discharged by Layer A); strings longer than the bound are outside the claim.',
        design='4 (C11)', technique='Kani/CBMC bounded model checking of real code; two layers'),
    'C14': dict(
        text='Decomposition decided entirely by the solver: (1) every table predicate of the decision list, run on its real generated '
             '6.3.0 tables through the public API with the other predicates held constant, equals the RFC 8264 section 9 category '
             'recomputed from the raw UCD for EVERY u32; (2) for ANY predicate outcomes the decision list is evaluated in the RFC order; '
             '(3) for ANY outcomes FreeformClass = IdentifierClass with ID_DIS<->FREE_PVAL and char/code-point entry points agree. '
             'Thorough additionally runs both classes end-to-end on the real tables over 16 chunks partitioning 0..=u32::MAX.',
        note='HasCompat (NFKC) is not reachable symbolically: replaced by a set that gen.py checks against the real unicode-normalization '
             'crate on all 249,703 code points assigned in 6.3.0 (native evaluation, not solver-decided). Oracle cross-checked with the IANA CSV.',
        design='4 (C14)', technique='Kani/CBMC bounded model checking of real code; compositional (per-predicate tables x decision list x class pairing)'),
})

NOT_YET = 'check not built yet in this session (see DESIGN.md section 4 for the planned harness)'
NOT_APPLICABLE = {
    'C17': 'the registry CSV parser is regex + BufReader<File>: Kani ICEs while compiling the regex crate (rvalue.rs:1009) and '
           'symbolic execution of regex-automata / file I/O is outside reach of the installed solver-based tools (DESIGN.md 6)',
}


def main():
    checks = []
    for pid in HR.PROPS:
        if pid not in CLAIMS or not HR.for_prop(pid, 'quick'):
            continue
        c = CLAIMS[pid]
        checks.append({
            'property_id': pid,
            'quick_cmd': './check %s --tier quick' % pid,
            'thorough_cmd': './check %s --tier thorough' % pid,
            'evidence_file': 'evidence/%s.json' % pid,
            'replay_cmd_template': './check %s --replay {path}' % pid,
            'engine': 'kani',
            'level_claimed': {'category': 'model_checking', 'text': c['text'], 'design_ref': 'DESIGN.md section ' + c['design']},
            'level_note': c['note'],
            'technique': c['technique'],
        })
    na = []
    for pid in HR.PROPS:
        if pid in CLAIMS and HR.for_prop(pid, 'quick'):
            continue
        na.append({'property_id': pid, 'reason': NOT_APPLICABLE.get(pid, NOT_YET)})
    man = {
        'version': 1,
        'setup_cmd': './setup.sh',
        'hooks': {
            'guard': 'cfg(kani) (set by cargo kani) or --cfg precis_verif (native replay builds only)',
            'enable': 'checks run `cargo kani` (which sets cfg(kani)) with PRECIS_VERIF_DIR=/verif; native replay builds use '
                      'RUSTFLAGS="--cfg precis_verif"; an ordinary cargo build/test sees none of the hook lines',
            'baseline_off_cmd': 'cd /repo && cargo test --workspace --no-fail-fast --offline',
            'source_commits': HOOK_COMMITS,
            'add_only': True,
        },
        'engines': [
            {'name': 'kani', 'path': 'check', 'serves_properties': [c['property_id'] for c in checks],
             'kind_free_text': 'Kani 0.68 -> CBMC 6.11 (CaDiCaL): bounded model checking of the compiled Rust of /repo; harness '
                               'bodies in kani/bodies/*.rs, registry harnesses.py, runner lib/runner.py, oracle tables regenerated '
                               'from the raw UCD files by oracle/gen.py; counterexamples replayed natively (kani/replay)'},
        ],
        'checks': checks,
        'not_applicable': na,
        'notes': 'All checks: exit 0 = holds within the stated bounds; exit 1 = VIOLATION reproduced natively; exit 2 = inconclusive '
                 '(timeout, OOM, unwinding/model assertion, vacuous harness, non-reproducing counterexample) and is never reported as success.',
    }
    with open(os.path.join(os.path.dirname(os.path.abspath(__file__)), 'MANIFEST.json'), 'w') as f:
        json.dump(man, f, indent=1)
        f.write('\n')


HOOK_COMMITS = ['b36ebdd']

if __name__ == '__main__':
    main()
