#!/usr/bin/env python3
"""Writes MANIFEST.json from the tables below (kept next to the harness registry so they stay in sync)."""
import json
import os
import sys

sys.path.insert(0, os.path.dirname(os.path.abspath(__file__)))
import harnesses as HR

CLAIMS = {
    'C18': dict(
        text='Bounded model checking of the compiled comparison impls with fully symbolic 32-bit inputs. The code is loop-free, '
             'so the SAT verdict covers every entry (single/range, start<=end) and every code point: complete, not sampled.',
        note='Kani/CBMC/CaDiCaL trusted; entries with start > end are outside the property.',
        design='4 (C18)', technique='Kani/CBMC bounded model checking of real code (loop-free, full 32-bit symbolic inputs)'),
    'C13': dict(
        text='stabilize() is symbolically executed with f ranging over ALL functions on 5 distinct strings into (5 strings + typed '
             'failure), every start string, results borrowed or owned; asserts the exact accept/reject/call-count contract. '
             'Bound: 5 states covers convergence after 0..3 steps, cycles of length 2..5 and a 5-chain.',
        note='f is a table-driven closure (deterministic, state-free); strings are 0..4 bytes; unwinding assertions on.',
        design='4 (C13)', technique='Kani/CBMC bounded model checking of real code; rule function as a symbolic transition table'),
}

CLAIMS.update({
    'C12': dict(
        text='Both space rules are executed symbolically on strings of up to 3 (thorough: 5) characters where every character is ANY '
             'Unicode scalar value (all mixes of 1-4 byte encodings), against an oracle computed on the character array (map Zs, trim, '
             'collapse); the real generated Zs table and binary search are in the loop; idempotence asserted. Found two real defects.',
        note='S-STR fixed-capacity String model; Zs oracle recomputed from UnicodeData 16.0.0; strings longer than the bound are outside the claim.',
        design='4 (C12)', technique='Kani/CBMC bounded model checking of real code over fully symbolic UTF-8 strings'),
    'C10': dict(
        text='Layer A: case_mapping_rule on exactly one character, every scalar value, with the real std case tables (per-loop unwind '
             'bounds confirmed by unwinding assertions). Layer B: strings of up to 3 (thorough: 4) characters over a 23-witness alphabet '
             'covering every cased/uncased/titlecase/multi-char/length-changing class, std tables replaced by a model that a third '
             'harness proves equal to real std on every witness. Oracle: per-character full lowercase mapping, position independent.',
        note='S-STR, S-CASE stubs; representativeness of the witness alphabet is an argument, the solver-level claim is over the alphabet; '
             'Layer A covers every scalar value for single characters.',
        design='4 (C10)', technique='Kani/CBMC bounded model checking of real code; two layers (real tables per character, stubbed tables on strings)'),
    'C11': dict(
        text='Layer A: width_mapping_rule on exactly one character, every scalar value, real generated 16.0.0 table and binary search, '
             'against the <wide>/<narrow> mappings recomputed from UnicodeData.txt. Layer B: strings of up to 3 (thorough: 4) fully '
             'symbolic characters with the table lookup replaced by the oracle function: per-character, position independent, idempotent.',
        note='S-STR, S-WIDTH stubs (S-WIDTH is discharged by Layer A); strings longer than the bound are outside the claim.',
        design='4 (C11)', technique='Kani/CBMC bounded model checking of real code; two layers'),
    'C14': dict(
        text='Decomposition decided entirely by the solver: (1) every table predicate of the decision list, run on its real generated '
             '6.3.0 tables through the public API with the other predicates held constant, equals the RFC 8264 section 9 category '
             'recomputed from the raw UCD for EVERY u32; (2) for ANY predicate outcomes the decision list is evaluated in the RFC order; '
             '(3) for ANY outcomes FreeformClass = IdentifierClass with ID_DIS<->FREE_PVAL and char/code-point entry points agree. '
             'Thorough additionally runs both classes end-to-end on the real tables over 16 chunks partitioning 0..=u32::MAX.',
        note='HasCompat (NFKC) is not reachable symbolically: replaced by a set that gen.py checks against the real unicode-normalization '
             'crate on all 249,703 code points assigned in 6.3.0 (native evaluation, not solver-decided). Oracle cross-checked with the IANA CSV.',
        design='4 (C14)', technique='Kani/CBMC bounded model checking of real code; compositional (per-predicate tables x decision list x class pairing)'),
})

T2 = 'Kani/CBMC bounded model checking of real code; '
CLAIMS.update({
    'C01': dict(
        text='Every harness of /verif keeps Kani\'s panic, arithmetic-overflow, slice-index, str-boundary and unwrap checks on. This check runs '
             'a dedicated harness (all nine context rules, fully symbolic 3-character label, ANY usize offset) plus a designated set of the other '
             'properties\' bodies (classification for any predicate outcome and on real tables, allows(), space/width/case rules on fully symbolic '
             'strings, stabilize, prepare/enforce/compare of all four profiles, bidi rule), counting only their safety checks.',
        note='Bounds as listed per harness in evidence; allocation failure and stack exhaustion out of scope; pointer (memory-safety) checks of std '
             'are off in the quick tier (/repo has no unsafe code).',
        design='4 (C01)', technique=T2 + 'panic/overflow/index/str-boundary checks over symbolic strings, offsets and code points'),
    'C02': dict(
        text='allows() is executed on labels of up to 4 (thorough 6) fully symbolic characters for a user class whose derived property values, '
             'rule registry and rule outcomes are ALL arbitrary functions chosen by the solver; the result must be exactly the first offender '
             '(code point, character position, property) or the Missing/NotApplicable/Undefined error. A second harness keeps the real registry shape '
             'with every rule replaced by its RFC 5892 specification on the character array, so that its counterexamples exist on the real code and '
             'replay natively. Thorough adds both standard classes end-to-end with the real registry and rules.',
        note='The clause about the standard classes is the composition with c03_registry and the C03 rule prologues; S-RULE stub (see evidence).',
        design='4 (C02)', technique=T2 + 'user-supplied class and rule registry as uninterpreted functions'),
    'C03': dict(
        text='Layer A: each table predicate is observed through its rule on a string with one symbolic neighbour (every scalar value) and real '
             'generated 6.3.0 tables. Layer B: each of the nine rules on labels of up to 3 (ZWNJ 4; thorough 5/6) fully symbolic characters and ANY '
             'usize offset against RFC 5892 Appendix A written over the character array. Registry: every u32.',
        note='S-CTX in Layer B (discharged by Layer A); labels longer than the bound are outside the claim.',
        design='4 (C03)', technique=T2 + 'two layers (real tables per neighbour, oracle predicates on symbolic labels and offsets)'),
    'C04': dict(
        text='prepare and enforce of both username profiles on strings over a 44-character alphabet closed under every pipeline operation '
             '(fullwidth, combining marks, singleton, RTL, Arabic-Indic digit, emoji ...), against the RFC 8265 pipeline written over character '
             'arrays; rule-binding harness pins NFC/width/case/directionality bindings. Quick: symbolic prepare on 1 character plus eight constant '
             'multi-character witnesses through enforce of both profiles (order of the steps); thorough: symbolic enforce on 1 and 2 characters.',
        note='S-PIPE/S-STR stubs incl. a normalizer model that gen.py validates against the real unicode-normalization crate on 7.6 M '
             'strings; directionality step = the crate\'s own bidi rule on the specification\'s string (its correctness is C09). In-crate hook.',
        design='4 (pipelines)', technique=T2 + 'pipelines over a closed witness alphabet, array-level oracle'),
    'C05': dict(
        text='OpaqueString prepare/enforce on strings over the closed 44-character alphabet against the RFC 8265 4.2 pipeline over character arrays '
             '(FreeformClass, non-ASCII space mapping, NFC, non-empty); binding harness: NFC not NFKC, no case/width/directionality rule; six constant '
             'multi-character witnesses.',
        note='S-PIPE/S-STR; quick 1 character, thorough 2.', design='4 (pipelines)', technique=T2 + 'pipelines over a closed witness alphabet'),
    'C06': dict(
        text='Quick: Nickname.prepare on one symbolic character against the statement, and Nickname.enforce (real stabilize loop) on six constant '
             'multi-character witnesses chosen so that a second round, re-validation in a later round (U+3131 -> DISALLOWED U+1100), space '
             'collapsing around multi-byte characters and NFKC folding all matter. Thorough: one and two applications of the enforcement rule '
             'function on symbolic strings (stabilize = apply twice; stabilize itself is decided for every rule function by C13), the real loop '
             'on symbolic strings of 1-2 characters, and every accepted result checked to be a fixed point.',
        note='S-PIPE/S-STR stubs incl. the normalizer model validated against the real unicode-normalization crate; strings over the closed 44-character alphabet.',
        design='4 (pipelines)', technique=T2 + 'pipelines over a closed witness alphabet, constant witnesses, fixed-point oracle'),
    'C07': dict(
        text='compare of all four profiles with one symbolic operand (any string of at most 1 character over the alphabet) and one constant operand '
             '("" second, "a" first, a class-rejected character first): equals equality of the specification\'s canonical forms, first operand\'s '
             'error first (Nickname: two applications of rules + lowercase). Thorough: both operands symbolic.',
        note='S-PIPE/S-STR; quick: strings of at most 1 character, thorough 2. Reflexivity/symmetry/transitivity follow from equality of canonical forms.',
        design='4 (pipelines)', technique=T2 + 'one symbolic and one constant operand over a closed alphabet (thorough: both symbolic)'),
    'C08': dict(
        text='(i) every scalar value through the real std to_lowercase: no DISALLOWED target for an IdentifierClass-valid source (UNASSIGNED '
             'targets = known finding); (ii) for the canonical form e that the specification assigns to enforce(y) (C04-C06 decide the real enforce '
             'returns it), the real enforce(e) is e or an error and no code point of e is DISALLOWED/UNASSIGNED; three profiles quick, all four thorough.',
        note='Normalization introducing forbidden code points over all of Unicode is outside reach (only over the alphabet).',
        design='4 (pipelines)', technique=T2 + 'per-character Layer A on real std tables + pipelines over a closed alphabet'),
    'C09': dict(
        text='Layer A: the private bidi_class_cp on the real 1570-entry table equals UnicodeData 16.0.0 on every assigned code point (8 chunks '
             'partitioning u32). Layer B: directionality_rule on EVERY class sequence of length <= 4 (thorough 6) over the 23 Bidi classes against the '
             'six RFC 5893 conditions; accepted strings unchanged, rejection is Invalid. One known finding (NSM followed by non-NSM).',
        note='S-BIDI-W in Layer B (discharged by Layer A); in-crate hook; longer labels outside the claim (the implementation is a 4-flag automaton).',
        design='4 (C09)', technique=T2 + 'two layers; rule as a regular language over class sequences'),
    'C13': dict(
        text='stabilize() with f ranging over ALL functions on 5 strings into (5 strings + typed failure), every start, unchanged results '
             'borrowed or owned, shorter results owned or a borrowed prefix of the input; exact accept/reject/call-count contract.',
        note='f is a table-driven closure; strings of 0..5 bytes.', design='4 (C13)',
        technique=T2 + 'rule function as a symbolic transition table'),
    'C15': dict(
        text='In-crate: UnassignedTableGen::process_entry, BidiClassGen::compress_into_ranges and WidthMappingTableGen::process_entry on K symbolic '
             'ascending disjoint UnicodeData entries (Single or Range) and a symbolic probe code point: the emitted entries denote exactly the input, '
             'no code point is covered twice. Partial: parsing (First/Last folding), HashSet-based tables and text emission are not reachable.',
        note='S-CP/S-VEC/S-FMT stubs; K = 3 quick, 4-5 thorough; what the emitted tables are for the pinned inputs is decided by the Layer A harnesses of C03/C09/C11/C12/C14.',
        design='4 (C15), 6', technique=T2 + 'generator state machines over symbolic entry sequences'),
    'C16': dict(
        text='For every profile and string over the alphabet, one API form per harness (static prepare/enforce/compare through the lazy singleton, '
             'String input, Cow input, a long-lived instance after another call) against the specification that a fresh instance on &str is shown '
             'to equal by C04-C07. Sequential part only.',
        note='Thread interleavings and racing first use are NOT claimed (Kani has no concurrency model; Once::call_once is stubbed).',
        design='4 (pipelines), 6', technique=T2 + 'API-form equivalence over a closed alphabet (sequential)'),
})

NOT_YET = 'check not built yet in this session (see DESIGN.md section 4 for the planned harness)'
NOT_APPLICABLE = {
    'C17': 'the registry CSV parser is regex + BufReader<File>: Kani ICEs while compiling the regex crate (rvalue.rs:1009) and '
           'symbolic execution of regex-automata / file I/O is outside reach of the installed solver-based tools (DESIGN.md 6)',
}


def main():
    checks = []
    for pid in HR.PROPS:
        if pid not in CLAIMS or not HR.for_prop(pid, 'quick'):
            continue
        c = CLAIMS[pid]
        checks.append({
            'property_id': pid,
            'quick_cmd': './check %s --tier quick' % pid,
            'thorough_cmd': './check %s --tier thorough' % pid,
            'evidence_file': 'evidence/%s.json' % pid,
            'replay_cmd_template': './check %s --replay {path}' % pid,
            'engine': 'kani',
            'level_claimed': {'category': 'model_checking', 'text': c['text'], 'design_ref': 'DESIGN.md section ' + c['design']},
            'level_note': c['note'],
            'technique': c['technique'],
        })
    na = []
    for pid in HR.PROPS:
        if pid in CLAIMS and HR.for_prop(pid, 'quick'):
            continue
        na.append({'property_id': pid, 'reason': NOT_APPLICABLE.get(pid, NOT_YET)})
    man = {
        'version': 1,
        'setup_cmd': './setup.sh',
        'hooks': {
            'guard': 'cfg(kani) (set by cargo kani) or --cfg precis_verif (native replay builds only)',
            'enable': 'checks run `cargo kani` (which sets cfg(kani)) with PRECIS_VERIF_DIR=/verif; native replay builds use '
                      'RUSTFLAGS="--cfg precis_verif"; an ordinary cargo build/test sees none of the hook lines',
            'baseline_off_cmd': 'cd /repo && cargo test --workspace --no-fail-fast --offline',
            'source_commits': HOOK_COMMITS,
            'add_only': True,
        },
        'engines': [
            {'name': 'kani', 'path': 'check', 'serves_properties': [c['property_id'] for c in checks],
             'kind_free_text': 'Kani 0.68 -> CBMC 6.11 (CaDiCaL): bounded model checking of the compiled Rust of /repo; harness '
                               'bodies in kani/bodies/*.rs, registry harnesses.py, runner lib/runner.py, oracle tables regenerated '
                               'from the raw UCD files by oracle/gen.py; counterexamples replayed natively (kani/replay)'},
        ],
        'checks': checks,
        'not_applicable': na,
        'notes': 'All checks: exit 0 = holds within the stated bounds; exit 1 = VIOLATION reproduced natively; exit 2 = inconclusive '
                 '(timeout, OOM, unwinding/model assertion, vacuous harness, non-reproducing counterexample) and is never reported as success.',
    }
    with open(os.path.join(os.path.dirname(os.path.abspath(__file__)), 'MANIFEST.json'), 'w') as f:
        json.dump(man, f, indent=1)
        f.write('\n')


HOOK_COMMITS = ['b36ebdd', 'cd5495e']

if __name__ == '__main__':
    main()
