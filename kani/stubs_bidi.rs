// ---- S-BIDI: bidi_class_cp = the UnicodeData 16.0.0 oracle (Layer A: c09_class_chunk_* prove the real table lookup
// equals it on every assigned code point).  Only usable in-crate: BidiClass is a private type.
use super::super::BidiClass;

pub fn class_of(i: u8) -> BidiClass {
    match i {
        0 => BidiClass::AL,
        1 => BidiClass::AN,
        2 => BidiClass::B,
        3 => BidiClass::BN,
        4 => BidiClass::CS,
        5 => BidiClass::EN,
        6 => BidiClass::ES,
        7 => BidiClass::ET,
        8 => BidiClass::FSI,
        9 => BidiClass::L,
        10 => BidiClass::LRE,
        11 => BidiClass::LRI,
        12 => BidiClass::LRO,
        13 => BidiClass::NSM,
        14 => BidiClass::ON,
        15 => BidiClass::PDF,
        16 => BidiClass::PDI,
        17 => BidiClass::R,
        18 => BidiClass::RLE,
        19 => BidiClass::RLI,
        20 => BidiClass::RLO,
        21 => BidiClass::S,
        _ => BidiClass::WS,
    }
}

pub fn st_bidi_class_cp(cp: u32) -> BidiClass {
    let v = super::oracle::bidi(cp);
    if v == 255 {
        // not assigned in 16.0.0: the real function answers its default, L
        BidiClass::L
    } else {
        class_of(v)
    }
}

/// S-BIDI-W: the same oracle restricted to the 23 witness characters (cheap); any other code point is outside the model
pub fn st_bidi_class_witness(cp: u32) -> BidiClass {
    let v = super::oracle::bidi_witness_class(cp);
    assert!(v != 255, "MODEL: character outside the Bidi witness alphabet");
    class_of(v)
}

/// S-PIPE part for Bidi: the oracle restricted to SIGMA_PIPE
pub fn sp_bidi_class_cp(cp: u32) -> BidiClass {
    let v = super::oracle::sig_bidi(cp);
    assert!(v != 254, "MODEL: character outside SIGMA_PIPE (Bidi class)");
    if v == 255 {
        BidiClass::L
    } else {
        class_of(v)
    }
}
