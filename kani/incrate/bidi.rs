// Included at the end of /repo/precis-profiles/src/bidi.rs by the one-line hook
//   #[cfg(any(kani, precis_verif))] include!(concat!(env!("PRECIS_VERIF_DIR"), "/kani/incrate/bidi.rs"));
// It lives inside `mod bidi`, so the private `bidi_class_cp` and the `BidiClass` type are in scope through `super::`.

/// verification harnesses (only compiled under cfg(kani) or --cfg precis_verif)
#[allow(missing_docs, dead_code, unused_imports, unused_macros, clippy::all)]
pub mod pv {
    pub use crate as precis_profiles;

    #[macro_use]
    pub mod sup {
        include!(concat!(env!("PRECIS_VERIF_DIR"), "/kani/support.rs"));
    }
    include!(concat!(env!("PRECIS_VERIF_DIR"), "/build/gen/oracle.rs"));
    include!(concat!(env!("PRECIS_VERIF_DIR"), "/build/gen/known.rs"));
    pub mod norm_model {
        include!(concat!(env!("PRECIS_VERIF_DIR"), "/kani/norm_model.rs"));
    }
    pub mod stubs {
        include!(concat!(env!("PRECIS_VERIF_DIR"), "/kani/stubs.rs"));
        include!(concat!(env!("PRECIS_VERIF_DIR"), "/kani/stubs_pipe.rs"));
        include!(concat!(env!("PRECIS_VERIF_DIR"), "/kani/stubs_bidi.rs"));
    }
    pub mod pipe {
        include!(concat!(env!("PRECIS_VERIF_DIR"), "/kani/bodies/pipe.rs"));
    }
    pub mod pipe_user {
        include!(concat!(env!("PRECIS_VERIF_DIR"), "/kani/bodies/pipe_user.rs"));
    }
    pub mod c14 {
        include!(concat!(env!("PRECIS_VERIF_DIR"), "/kani/bodies/c14.rs"));
    }
    pub mod c09 {
        include!(concat!(env!("PRECIS_VERIF_DIR"), "/kani/bodies/c09.rs"));
    }
    include!(concat!(env!("PRECIS_VERIF_DIR"), "/build/gen/proofs_profiles.rs"));

    /// native replay entry point (plain std types: the replay binary has its own copy of the support types)
    #[cfg(not(kani))]
    #[no_mangle]
    pub fn pv_profiles_replay(name: &str, vals: Vec<Vec<u8>>) -> (bool, Vec<String>, Vec<String>, Vec<String>, bool, bool) {
        let mut src = sup::RSrc::new(vals);
        let found = dispatch(name, &mut src);
        (
            found,
            src.failed.iter().map(|s| s.to_string()).collect(),
            src.covered.iter().map(|s| s.to_string()).collect(),
            src.notes.clone(),
            src.assume_violated,
            src.exhausted,
        )
    }
}
