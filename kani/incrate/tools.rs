// Included at the end of /repo/precis-tools/src/generators/ucd_generator.rs (hook).  Lives inside that module, so the
// private fields of UnassignedTableGen / WidthMappingTableGen are reachable through `super::`.

/// verification harnesses (only compiled under cfg(kani) or --cfg precis_verif)
#[allow(missing_docs, dead_code, unused_imports, unused_macros, clippy::all)]
pub mod pv {
    #[macro_use]
    pub mod sup {
        include!(concat!(env!("PRECIS_VERIF_DIR"), "/kani/support.rs"));
    }
    pub mod stubs {
        include!(concat!(env!("PRECIS_VERIF_DIR"), "/kani/stubs_tools.rs"));
    }
    pub mod c15 {
        include!(concat!(env!("PRECIS_VERIF_DIR"), "/kani/bodies/c15.rs"));
    }
    include!(concat!(env!("PRECIS_VERIF_DIR"), "/build/gen/proofs_tools.rs"));

    /// native replay entry point
    #[cfg(not(kani))]
    #[no_mangle]
    pub fn pv_tools_replay(name: &str, vals: Vec<Vec<u8>>) -> (bool, Vec<String>, Vec<String>, Vec<String>, bool, bool) {
        let mut src = sup::RSrc::new(vals);
        let found = dispatch(name, &mut src);
        (
            found,
            src.failed.iter().map(|s| s.to_string()).collect(),
            src.covered.iter().map(|s| s.to_string()).collect(),
            src.notes.clone(),
            src.assume_violated,
            src.exhausted,
        )
    }
}
