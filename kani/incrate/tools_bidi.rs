// Included at the end of /repo/precis-tools/src/generators/bidi_class.rs (hook): crate-visible accessors to the
// private state of BidiClassGen for the C15 harnesses.
#[allow(missing_docs, dead_code)]
impl BidiClassGen {
    pub(crate) fn pv_with(vec: Vec<(Codepoints, String)>) -> Self {
        Self { table_name: String::new(), vec }
    }
    pub(crate) fn pv_compress(&mut self) {
        self.compress_into_ranges()
    }
    pub(crate) fn pv_vec(&self) -> &Vec<(Codepoints, String)> {
        &self.vec
    }
}
