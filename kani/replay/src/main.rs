//! Native replay: runs one harness body on the real code with the values of a Kani counterexample.
//! usage: replay <crate> <harness> <hex>,<hex>,...   (one little-endian byte vector per kani::any call)
//! exit 0 = no failure reproduced, 1 = a check failed or the code panicked, 2 = usage / invalid replay
use pv::sup::RSrc;

fn dispatch(krate: &str, name: &str, src: &mut RSrc) -> bool {
    match krate {
        "ext" => pv::dispatch(name, src),
        _ => false,
    }
}

fn main() {
    let args: Vec<String> = std::env::args().collect();
    if args.len() < 3 {
        eprintln!("usage: replay <crate> <harness> [hex,hex,...]");
        std::process::exit(2);
    }
    let vals: Vec<Vec<u8>> = if args.len() > 3 && !args[3].is_empty() {
        args[3]
            .split(',')
            .map(|h| {
                (0..h.len() / 2)
                    .map(|i| u8::from_str_radix(&h[2 * i..2 * i + 2], 16).unwrap())
                    .collect()
            })
            .collect()
    } else {
        Vec::new()
    };
    let mut src = RSrc::new(vals);
    let krate = args[1].clone();
    let name = args[2].clone();
    std::panic::set_hook(Box::new(|_| {}));
    let res = std::panic::catch_unwind(std::panic::AssertUnwindSafe(|| dispatch(&krate, &name, &mut src)));
    for n in &src.notes {
        println!("REPLAY input: {}", n);
    }
    match res {
        Err(e) => {
            let msg = if let Some(s) = e.downcast_ref::<&str>() {
                s.to_string()
            } else if let Some(s) = e.downcast_ref::<String>() {
                s.clone()
            } else {
                "?".to_string()
            };
            println!("REPLAY panic: {}", msg);
            std::process::exit(1);
        }
        Ok(false) => {
            eprintln!("unknown harness {}", name);
            std::process::exit(2);
        }
        Ok(true) => {}
    }
    if src.assume_violated || src.exhausted {
        println!("REPLAY invalid: assume_violated={} exhausted={}", src.assume_violated, src.exhausted);
        std::process::exit(2);
    }
    for c in &src.covered {
        println!("REPLAY covered: {}", c);
    }
    if src.failed.is_empty() {
        println!("REPLAY ok: no check failed");
        std::process::exit(0);
    }
    for f in &src.failed {
        println!("REPLAY failed: {}", f);
    }
    std::process::exit(1);
}
