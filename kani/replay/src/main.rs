//! Native replay: runs one harness body on the real code with the values of a Kani counterexample.
//! usage: replay <crate> <harness> <hex>,<hex>,...   (one little-endian byte vector per kani::any call)
//! exit 0 = no failure reproduced, 1 = a check failed or the code panicked, 2 = usage / invalid replay
//! Built with RUSTFLAGS="--cfg precis_verif" so that the in-crate hooks of /repo export their dispatchers.
#[allow(unused_extern_crates)]
extern crate precis_profiles;
#[allow(unused_extern_crates)]
extern crate precis_tools;

type Out = (bool, Vec<String>, Vec<String>, Vec<String>, bool, bool);

extern "Rust" {
    fn pv_profiles_replay(name: &str, vals: Vec<Vec<u8>>) -> Out;
    fn pv_tools_replay(name: &str, vals: Vec<Vec<u8>>) -> Out;
}

fn run_ext(name: &str, vals: Vec<Vec<u8>>) -> Out {
    let mut src = pv::sup::RSrc::new(vals);
    let found = pv::dispatch(name, &mut src);
    (
        found,
        src.failed.iter().map(|s| s.to_string()).collect(),
        src.covered.iter().map(|s| s.to_string()).collect(),
        src.notes.clone(),
        src.assume_violated,
        src.exhausted,
    )
}

fn main() {
    let args: Vec<String> = std::env::args().collect();
    if args.len() < 3 {
        eprintln!("usage: replay <crate> <harness> [hex,hex,...]");
        std::process::exit(2);
    }
    let vals: Vec<Vec<u8>> = if args.len() > 3 && !args[3].is_empty() {
        args[3]
            .split(',')
            .map(|h| (0..h.len() / 2).map(|i| u8::from_str_radix(&h[2 * i..2 * i + 2], 16).unwrap()).collect())
            .collect()
    } else {
        Vec::new()
    };
    let krate = args[1].clone();
    let name = args[2].clone();
    std::panic::set_hook(Box::new(|_| {}));
    let res = std::panic::catch_unwind(std::panic::AssertUnwindSafe(|| match krate.as_str() {
        "ext" => run_ext(&name, vals),
        "profiles" => unsafe { pv_profiles_replay(&name, vals) },
        "tools" => unsafe { pv_tools_replay(&name, vals) },
        _ => (false, vec![], vec![], vec![], false, false),
    }));
    match res {
        Err(e) => {
            let msg = if let Some(s) = e.downcast_ref::<&str>() {
                s.to_string()
            } else if let Some(s) = e.downcast_ref::<String>() {
                s.clone()
            } else {
                "?".to_string()
            };
            println!("REPLAY panic: {}", msg);
            std::process::exit(1);
        }
        Ok((found, failed, covered, notes, assume_violated, exhausted)) => {
            if !found {
                eprintln!("unknown harness {}/{}", krate, name);
                std::process::exit(2);
            }
            for n in &notes {
                println!("REPLAY input: {}", n);
            }
            if assume_violated || exhausted {
                println!("REPLAY invalid: assume_violated={} exhausted={}", assume_violated, exhausted);
                std::process::exit(2);
            }
            for c in &covered {
                println!("REPLAY covered: {}", c);
            }
            if failed.is_empty() {
                println!("REPLAY ok: no check failed");
                std::process::exit(0);
            }
            for f in &failed {
                println!("REPLAY failed: {}", f);
            }
            std::process::exit(1);
        }
    }
}
