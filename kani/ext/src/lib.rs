//! External harness crate: path dependencies on the crates of /repo, no source hooks needed.
//! Bodies live in /verif/kani/bodies/*.rs, generic over the nondeterminism source (`sup::Src`).
#![allow(clippy::all)]
#![recursion_limit = "512"]
#![cfg_attr(kani, feature(allocator_api))]
#[cfg(kani)]
extern crate alloc;

pub use ::precis_profiles;

#[macro_use]
pub mod sup {
    include!(concat!(env!("PRECIS_VERIF_DIR"), "/kani/support.rs"));
}
include!(concat!(env!("PRECIS_VERIF_DIR"), "/build/gen/oracle.rs"));
include!(concat!(env!("PRECIS_VERIF_DIR"), "/build/gen/known.rs"));
#[allow(dead_code)]
pub mod norm_model {
    include!(concat!(env!("PRECIS_VERIF_DIR"), "/kani/norm_model.rs"));
}
#[allow(dead_code)]
pub mod stubs {
    include!(concat!(env!("PRECIS_VERIF_DIR"), "/kani/stubs.rs"));
    include!(concat!(env!("PRECIS_VERIF_DIR"), "/kani/stubs_pipe.rs"));
}
pub mod pipe {
    include!(concat!(env!("PRECIS_VERIF_DIR"), "/kani/bodies/pipe.rs"));
}
pub mod c01 {
    include!(concat!(env!("PRECIS_VERIF_DIR"), "/kani/bodies/c01.rs"));
}
pub mod c08 {
    include!(concat!(env!("PRECIS_VERIF_DIR"), "/kani/bodies/c08.rs"));
}
pub mod c02 {
    include!(concat!(env!("PRECIS_VERIF_DIR"), "/kani/bodies/c02.rs"));
}
pub mod c03 {
    include!(concat!(env!("PRECIS_VERIF_DIR"), "/kani/bodies/c03.rs"));
}
pub mod c10 {
    include!(concat!(env!("PRECIS_VERIF_DIR"), "/kani/bodies/c10.rs"));
}
pub mod c11 {
    include!(concat!(env!("PRECIS_VERIF_DIR"), "/kani/bodies/c11.rs"));
}
pub mod c12 {
    include!(concat!(env!("PRECIS_VERIF_DIR"), "/kani/bodies/c12.rs"));
}
pub mod c13 {
    include!(concat!(env!("PRECIS_VERIF_DIR"), "/kani/bodies/c13.rs"));
}
pub mod c14 {
    include!(concat!(env!("PRECIS_VERIF_DIR"), "/kani/bodies/c14.rs"));
}
pub mod c18 {
    include!(concat!(env!("PRECIS_VERIF_DIR"), "/kani/bodies/c18.rs"));
}

// generated from /verif/harnesses.py: #[kani::proof] wrappers and the native dispatch table
include!(concat!(env!("PRECIS_VERIF_DIR"), "/build/gen/proofs_ext.rs"));
