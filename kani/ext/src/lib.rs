//! External harness crate: path dependencies on the crates of /repo, no source hooks needed.
//! Bodies live in /verif/kani/bodies/*.rs, generic over the nondeterminism source (`sup::Src`).
#![allow(clippy::all)]
#![recursion_limit = "512"]
#![cfg_attr(kani, feature(allocator_api))]
#[cfg(kani)]
extern crate alloc;

#[macro_use]
pub mod sup {
    include!(concat!(env!("PRECIS_VERIF_DIR"), "/kani/support.rs"));
}
include!(concat!(env!("PRECIS_VERIF_DIR"), "/build/gen/oracle.rs"));
#[allow(dead_code)]
pub mod stubs {
    include!(concat!(env!("PRECIS_VERIF_DIR"), "/kani/stubs.rs"));
}
pub mod c02 {
    include!(concat!(env!("PRECIS_VERIF_DIR"), "/kani/bodies/c02.rs"));
}
pub mod c03 {
    include!(concat!(env!("PRECIS_VERIF_DIR"), "/kani/bodies/c03.rs"));
}
pub mod c10 {
    include!(concat!(env!("PRECIS_VERIF_DIR"), "/kani/bodies/c10.rs"));
}
pub mod c11 {
    include!(concat!(env!("PRECIS_VERIF_DIR"), "/kani/bodies/c11.rs"));
}
pub mod c12 {
    include!(concat!(env!("PRECIS_VERIF_DIR"), "/kani/bodies/c12.rs"));
}
pub mod c13 {
    include!(concat!(env!("PRECIS_VERIF_DIR"), "/kani/bodies/c13.rs"));
}
pub mod c14 {
    include!(concat!(env!("PRECIS_VERIF_DIR"), "/kani/bodies/c14.rs"));
}
pub mod c18 {
    include!(concat!(env!("PRECIS_VERIF_DIR"), "/kani/bodies/c18.rs"));
}

// generated from /verif/harnesses.py: #[kani::proof] wrappers and the native dispatch table
include!(concat!(env!("PRECIS_VERIF_DIR"), "/build/gen/proofs_ext.rs"));
