// Stubs for the precis-tools harnesses (C15).  Kani only; natively the real functions run.

// ---- S-FMT
pub fn s_format(_args: core::fmt::Arguments<'_>) -> String {
    String::new()
}

// ---- S-CP: ucd_parse::Codepoint::from_u32 is always Ok for n <= 0x10FFFF (cuts the io::Error-bearing error path);
// the harnesses only feed code points <= 0x10FFFD, for which the real function is Ok as well.
pub fn s_cp_from_u32(n: u32) -> Result<ucd_parse::Codepoint, ucd_parse::Error> {
    assert!(n <= 0x10FFFF, "MODEL: code point out of range in Codepoint::from_u32");
    Ok(unsafe { core::mem::transmute::<u32, ucd_parse::Codepoint>(n) })
}

// ---- S-VEC: Vec::push without growth (the harness pre-sizes every vector)
#[cfg(kani)]
pub fn s_vec_push<T, A: std::alloc::Allocator>(v: &mut Vec<T, A>, x: T) {
    let len = v.len();
    assert!(len < v.capacity(), "MODEL: vector capacity");
    unsafe {
        core::ptr::write(v.as_mut_ptr().add(len), x);
        v.set_len(len + 1);
    }
}

/// Vec::new() with a fixed capacity (so that the S-VEC push never has to grow)
pub fn s_vec_new<T>() -> Vec<T> {
    Vec::with_capacity(8)
}

pub fn cp(n: u32) -> ucd_parse::Codepoint {
    unsafe { core::mem::transmute::<u32, ucd_parse::Codepoint>(n) }
}
