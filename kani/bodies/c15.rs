// C15 — Table generators are faithful to any well-formed UCD input.   (in-crate: precis-tools)
// Functions encoded (real code): UnassignedTableGen::process_entry + common::add_codepoints,
// BidiClassGen::process_entry/compress_into_ranges + add_range, WidthMappingTableGen::process_entry,
// on K symbolic, ascending, disjoint UnicodeData entries (each Single or Range) with symbolic values.
// Not reachable (stated in DESIGN.md 6): ucd_parse::parse / UnicodeData::parse (file I/O, regex), text emission to File,
// HashSet-based set tables.
use super::stubs::cp;
use super::sup::*;
use super::super::{UnassignedTableGen, WidthMappingTableGen};
use crate::generators::bidi_class::BidiClassGen;
use crate::generators::ucd_generator::UcdLineParser;
use crate::ucd_parsers::UnicodeData;
use ucd_parse::{CodepointRange, Codepoints};

fn contains(c: &Codepoints, p: u32) -> bool {
    match c {
        Codepoints::Single(x) => x.value() == p,
        Codepoints::Range(r) => r.start.value() <= p && p <= r.end.value(),
    }
}

struct Entries<const K: usize> {
    lo: [u32; K],
    hi: [u32; K],
    range: [bool; K],
}

/// K ascending, disjoint entries within 0..=0x10FFFD (the last code point UnicodeData.txt lists)
fn entries<const K: usize, S: Src>(s: &mut S) -> Entries<K> {
    let mut e = Entries { lo: [0; K], hi: [0; K], range: [false; K] };
    let mut i = 0;
    while i < K {
        let a = s.u32();
        let b = s.u32();
        let r = s.bool();
        s.assume(a <= b && b <= 0x10FFFD);
        s.assume(r || a == b);
        if i > 0 {
            s.assume(e.hi[i - 1] < a);
        }
        e.lo[i] = a;
        e.hi[i] = b;
        e.range[i] = r;
        i += 1;
    }
    e
}

fn codepoints_of<const K: usize>(e: &Entries<K>, i: usize) -> Codepoints {
    if e.range[i] {
        Codepoints::Range(CodepointRange { start: cp(e.lo[i]), end: cp(e.hi[i]) })
    } else {
        Codepoints::Single(cp(e.lo[i]))
    }
}

/// Unassigned gaps: after K entries, a code point up to the last entry is covered by an emitted entry iff no input
/// entry contains it; emitted entries never overlap an input entry.
pub fn unassigned<const K: usize, const CAP: usize, S: Src>(s: &mut S) {
    let e = entries::<K, S>(s);
    let mut gen = UnassignedTableGen {
        name: String::new(),
        range: CodepointRange { start: cp(0), end: cp(0) },
        vec: Vec::with_capacity(CAP),
    };
    let mut ud = UnicodeData::default();
    let mut ok = true;
    let mut i = 0;
    while i < K {
        ud.codepoints = codepoints_of(&e, i);
        if gen.process_entry(&ud).is_err() {
            ok = false;
        }
        i += 1;
    }
    pv_note!(s, "UnassignedTableGen entries lo={:x?} hi={:x?} range={:?} -> {:?}", e.lo, e.hi, e.range, gen.vec);
    pv_check!(s, ok, "PV: process_entry accepts every well-formed ascending entry sequence");
    let p = s.u32();
    s.assume(p <= e.hi[K - 1]);
    let mut in_input = false;
    let mut i = 0;
    while i < K {
        if e.lo[i] <= p && p <= e.hi[i] {
            in_input = true;
        }
        i += 1;
    }
    let mut hits = 0usize;
    let mut j = 0;
    while j < CAP {
        if j < gen.vec.len() && contains(&gen.vec[j], p) {
            hits += 1;
        }
        j += 1;
    }
    pv_cover!(s, !in_input && p > e.hi[0], "COVER: probe in an interior gap");
    pv_cover!(s, !in_input && p < e.lo[0], "COVER: probe before the first entry");
    pv_check!(s, (hits > 0) == !in_input, "PV: the unassigned table denotes exactly the code points no entry assigns (up to the last entry)");
    pv_check!(s, hits <= 1, "PV: no code point is covered by two entries of the unassigned table");
    std::mem::forget(gen);
    std::mem::forget(ud);
}

const CLASSES: [&str; 3] = ["L", "R", "AL"];

/// Bidi run compression: after compression the value found for a code point equals the class its input entry
/// assigns, exactly one entry covers it, none covers a code point the input does not list.
pub fn bidi_compress<const K: usize, const CAP: usize, S: Src>(s: &mut S) {
    let e = entries::<K, S>(s);
    let mut cls = [0usize; K];
    let mut v: Vec<(Codepoints, String)> = Vec::with_capacity(K);
    let mut i = 0;
    while i < K {
        cls[i] = s.below(3);
        v.push((codepoints_of(&e, i), String::from(CLASSES[cls[i]])));
        i += 1;
    }
    let mut gen = BidiClassGen::pv_with(v);
    gen.pv_compress();
    let out = gen.pv_vec();
    pv_note!(s, "BidiClassGen entries lo={:x?} hi={:x?} range={:?} class={:?} -> {:?}", e.lo, e.hi, e.range, cls, out);
    let p = s.u32();
    let mut exp: usize = 3; // 3 = not listed
    let mut i = 0;
    while i < K {
        if e.lo[i] <= p && p <= e.hi[i] {
            exp = cls[i];
        }
        i += 1;
    }
    let mut hits = 0usize;
    let mut wrong = false;
    let mut j = 0;
    while j < CAP {
        if j < out.len() && contains(&out[j].0, p) {
            hits += 1;
            if exp == 3 || out[j].1.len() != CLASSES[exp].len() || out[j].1.as_bytes()[0] != CLASSES[exp].as_bytes()[0] {
                wrong = true;
            }
        }
        j += 1;
    }
    pv_check!(s, out.len() <= CAP, "PV: compression never emits more entries than twice the input");
    pv_cover!(s, exp != 3 && hits == 1 && !wrong, "COVER: probe found with its class");
    pv_check!(s, !wrong, "PV: no emitted Bidi entry gives a code point a class other than the one the input assigns");
    pv_check!(s, hits <= 1, "PV: no code point is covered by two Bidi entries");
    pv_check!(s, exp == 3 || hits >= 1, "PV: every listed code point is covered by an emitted Bidi entry");
    std::mem::forget(gen);
}

/// Width mapping collection: an entry is emitted iff the decomposition tag is <wide> or <narrow>, with the entry's
/// code points and the first mapped code point.
pub fn width_collect<S: Src>(s: &mut S) {
    use ucd_parse::UnicodeDataDecompositionTag as T;
    let mut gen = WidthMappingTableGen { name: String::new(), vec: Vec::with_capacity(2) };
    let mut ud = UnicodeData::default();
    let a = s.u32();
    let m = s.u32();
    s.assume(a <= 0x10FFFD && m <= 0x10FFFD);
    let t = s.below(5);
    ud.codepoints = Codepoints::Single(cp(a));
    ud.decomposition.len = 1;
    ud.decomposition.mapping[0] = cp(m);
    ud.decomposition.tag = match t {
        0 => None,
        1 => Some(T::Wide),
        2 => Some(T::Narrow),
        3 => Some(T::Compat),
        _ => Some(T::Font),
    };
    let r = gen.process_entry(&ud);
    pv_check!(s, r.is_ok(), "PV: width collection accepts a well-formed entry");
    let expect = t == 1 || t == 2;
    pv_check!(s, gen.vec.len() == expect as usize, "PV: an entry is collected iff its decomposition tag is <wide> or <narrow>");
    if gen.vec.len() == 1 {
        pv_check!(s, contains(&gen.vec[0].0, a) && gen.vec[0].1.value() == m, "PV: the collected pair is (entry, first mapped code point)");
    }
    pv_cover!(s, expect, "COVER: a wide/narrow entry");
    std::mem::forget(gen);
    std::mem::forget(ud);
}

/// NOT REGISTERED: attempted and out of reach (hashbrown's SIMD group probing and getrandom-seeded RandomState make the
/// symbolic execution time out at 1500 s even for 3 elements); kept for the record.
/// Set tables (general category, scripts, joining types, properties): common::get_codepoints_vector on a set of up to 3
/// symbolic code points: the emitted entries denote exactly the set, ascending, no double coverage.
pub fn set_table<S: Src>(s: &mut S) {
    use std::collections::HashSet;
    let mut set: HashSet<u32> = HashSet::new();
    let n = s.below(4);
    let mut vals = [0u32; 3];
    let mut i = 0;
    while i < 3 {
        vals[i] = s.u32();
        s.assume(vals[i] <= 0x10FFFF);
        if i < n {
            set.insert(vals[i]);
        }
        i += 1;
    }
    let out = crate::common::get_codepoints_vector(&set);
    pv_note!(s, "get_codepoints_vector({:x?}) -> {:?}", &vals[..n], out);
    let p = s.u32();
    let mut member = false;
    let mut i = 0;
    while i < 3 {
        if i < n && vals[i] == p {
            member = true;
        }
        i += 1;
    }
    let mut hits = 0usize;
    let mut j = 0;
    while j < 3 {
        if j < out.len() && contains(&out[j], p) {
            hits += 1;
        }
        j += 1;
    }
    pv_check!(s, out.len() <= 3, "PV: a set of n code points gives at most n entries");
    pv_check!(s, (hits == 1) == member && hits <= 1, "PV: the set table denotes exactly the code points of the set, each once");
    pv_cover!(s, n == 3 && out.len() == 1, "COVER: three consecutive code points merged into one range");
    std::mem::forget(out);
    std::mem::forget(set);
}
