// C08 (i) — case mapping, which runs after validation, never introduces a universally forbidden code point.
// Functions encoded: std char::to_lowercase with its real tables (the mapping UsernameCaseMapped::enforce applies
// after IdentifierClass validation); derived property = oracle over the raw 6.3.0 UCD (equal to the real classes by C14).
use super::oracle;
use super::sup::*;

pub fn casemap_targets<S: Src>(s: &mut S) {
    let c = s.ch();
    pv_note!(s, "to_lowercase({:?} U+{:04X})", c, c as u32);
    let v = oracle::dpv(c as u32) / 8; // IdentifierClass value
    let valid = v == 0 || v == 3 || v == 4; // PVALID or contextual
    let mut it = c.to_lowercase();
    let t = [it.next(), it.next(), it.next()];
    let mut forbidden = false; // DISALLOWED target
    let mut unassigned = false; // UNASSIGNED (in 6.3.0) target
    let mut k = 0;
    while k < 3 {
        if let Some(x) = t[k] {
            let w = oracle::dpv(x as u32) / 8;
            if w == 5 {
                forbidden = true;
            }
            if w == 6 {
                unassigned = true;
            }
        }
        k += 1;
    }
    pv_cover!(s, valid && t[0] != Some(c) && !forbidden && !unassigned, "COVER: a valid character with a valid lowercase mapping");
    if valid {
        pv_check!(s, !forbidden, "PV: the lowercase mapping of an IdentifierClass-valid character contains no DISALLOWED code point");
        // known finding C08_CASEMAP_POST63: std maps with current Unicode data, the class tables are pinned to 6.3.0
        let excused = super::known::C08_CASEMAP_POST63 && unassigned;
        pv_cover!(s, excused, "KF:C08_CASEMAP_POST63 a character valid in 6.3.0 lowercases to a code point that is UNASSIGNED in 6.3.0");
        pv_check!(s, !unassigned || excused, "PV: the lowercase mapping of an IdentifierClass-valid character contains no UNASSIGNED code point");
    }
}
