// C09 — The directionality rule is the RFC 5893 Bidi rule, on every label.   (in-crate: precis-profiles/src/bidi.rs)
// Layer A `class_chunk`: the private bidi_class_cp on the real generated 16.0.0 table, every u32, against UnicodeData.txt.
// Layer B `bidi_rule`: Rules::directionality_rule (usernames::directionality_rule, bidi::has_rtl, satisfy_bidi_rule,
//   is_valid_rtl_label, is_valid_ltr_label: real code) on every class sequence of length <= N, one witness character per
//   Bidi class, bidi_class_cp stubbed by the oracle (S-BIDI, discharged by Layer A).
// Oracle: the six conditions of RFC 5893 section 2 written as quantified statements over the class array.
use super::oracle;
use super::sup::*;
use super::super::{bidi_class_cp, BidiClass};
use precis_core::profile::Rules;
use precis_core::Error;

fn class_of(i: u8) -> BidiClass {
    match i {
        0 => BidiClass::AL,
        1 => BidiClass::AN,
        2 => BidiClass::B,
        3 => BidiClass::BN,
        4 => BidiClass::CS,
        5 => BidiClass::EN,
        6 => BidiClass::ES,
        7 => BidiClass::ET,
        8 => BidiClass::FSI,
        9 => BidiClass::L,
        10 => BidiClass::LRE,
        11 => BidiClass::LRI,
        12 => BidiClass::LRO,
        13 => BidiClass::NSM,
        14 => BidiClass::ON,
        15 => BidiClass::PDF,
        16 => BidiClass::PDI,
        17 => BidiClass::R,
        18 => BidiClass::RLE,
        19 => BidiClass::RLI,
        20 => BidiClass::RLO,
        21 => BidiClass::S,
        _ => BidiClass::WS,
    }
}

/// Layer A: chunk K of 8 (the chunks partition 0..=u32::MAX)
pub fn class_chunk<const K: usize, S: Src>(s: &mut S) {
    let (lo, hi) = oracle::BIDI_CHUNKS[K];
    let cp = s.u32();
    s.assume(lo <= cp && cp <= hi);
    pv_note!(s, "bidi_class_cp({:#x})", cp);
    let v = oracle::bidi(cp);
    let got = bidi_class_cp(cp);
    pv_cover!(s, v != 255 && v != 9, "COVER: an assigned code point whose class is not L");
    if v != 255 {
        pv_check!(s, got == class_of(v), "PV: Bidi_Class of every assigned code point = UnicodeData.txt 16.0.0");
    }
}

const AL: u8 = 0;
const AN: u8 = 1;
const BN: u8 = 3;
const CS: u8 = 4;
const EN: u8 = 5;
const ES: u8 = 6;
const ET: u8 = 7;
const L: u8 = 9;
const NSM: u8 = 13;
const ON: u8 = 14;
const R: u8 = 17;

/// Layer B: every class sequence of length 0..=N
pub fn bidi_rule<const N: usize, const B: usize, S: Src>(s: &mut S) {
    let n = s.below(N + 1);
    let mut cl = [0u8; N];
    let mut buf = SBuf::<B>::new();
    let mut i = 0;
    while i < N {
        cl[i] = s.below(23) as u8;
        if i < n {
            buf.push(oracle::BIDI_WITNESS[cl[i] as usize]);
        }
        i += 1;
    }
    pv_note!(s, "directionality_rule({:?})  classes {:?}", buf.as_str(), &cl[..n]);
    let preserved = s.bool();
    let r = if preserved {
        crate::UsernameCasePreserved::new().directionality_rule(buf.as_str())
    } else {
        crate::UsernameCaseMapped::new().directionality_rule(buf.as_str())
    };

    // ---- RFC 5893 section 2 over the class array
    let mut has_rtl = false;
    let mut all_rtl_ok = true; // condition 2
    let mut all_ltr_ok = true; // condition 5
    let mut any_en = false;
    let mut any_an = false;
    let mut last_non_nsm: u8 = 255;
    let mut nsm_interior = false; // some NSM is followed by a non-NSM
    let mut i = 0;
    while i < N {
        if i < n {
            let c = cl[i];
            if c == R || c == AL || c == AN {
                has_rtl = true;
            }
            if !(c == R || c == AL || c == AN || c == EN || c == ES || c == CS || c == ET || c == ON || c == BN || c == NSM) {
                all_rtl_ok = false;
            }
            if !(c == L || c == EN || c == ES || c == CS || c == ET || c == ON || c == BN || c == NSM) {
                all_ltr_ok = false;
            }
            if c == EN {
                any_en = true;
            }
            if c == AN {
                any_an = true;
            }
            if c != NSM {
                last_non_nsm = c;
                if i > 0 && cl[i - 1] == NSM {
                    nsm_interior = true;
                }
            }
        }
        i += 1;
    }
    let spec_accepts = if !has_rtl {
        true
    } else {
        let first = cl[0];
        if first == R || first == AL {
            all_rtl_ok && (last_non_nsm == R || last_non_nsm == AL || last_non_nsm == EN || last_non_nsm == AN) && !(any_en && any_an)
        } else if first == L {
            all_ltr_ok && (last_non_nsm == L || last_non_nsm == EN)
        } else {
            false
        }
    };
    pv_cover!(s, has_rtl && spec_accepts && n == N && any_en, "COVER: accepted RTL label of full length containing EN");
    pv_cover!(s, has_rtl && !spec_accepts && cl[0] == R && all_rtl_ok && n == N, "COVER: RTL label rejected only by the ending/mixing conditions");
    pv_cover!(s, !has_rtl && n == N && cl[0] == NSM, "COVER: label without R/AL/AN is accepted whatever it contains");

    match r {
        Ok(out) => {
            pv_check!(s, out.len() == buf.len, "PV: an accepted string is returned unchanged (length)");
            let mut got = ['\0'; N];
            let k = decode(&out, &mut got);
            let mut same = k == n;
            let mut j = 0;
            while j < N {
                if j < n && j < k && got[j] != oracle::BIDI_WITNESS[cl[j] as usize] {
                    same = false;
                }
                j += 1;
            }
            pv_check!(s, same, "PV: an accepted string is returned unchanged (characters)");
            pv_check!(s, spec_accepts, "PV: directionality rule accepts only labels satisfying the RFC 5893 Bidi rule");
        }
        Err(e) => {
            pv_check!(s, e == Error::Invalid, "PV: rejection by the directionality rule is Error::Invalid");
            // known finding C09_NSM_INTERIOR: the implementation rejects labels the RFC accepts when an NSM is followed
            // by a non-NSM character (only NSM is tolerated after the first NSM)
            let excused = super::known::C09_NSM_INTERIOR && spec_accepts && has_rtl && nsm_interior;
            pv_cover!(s, excused, "KF:C09_NSM_INTERIOR RFC-valid RTL label with an NSM followed by a non-NSM is rejected");
            pv_check!(s, !spec_accepts || excused, "PV: directionality rule accepts every label satisfying the RFC 5893 Bidi rule");
        }
    }
}
