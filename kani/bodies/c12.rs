// C12 — Space rules map, trim and collapse spaces without touching anything else.
// Functions encoded (real code, real 16.0.0 Zs table): nicknames::find_disallowed_space, trim_spaces
// (through Nickname::additional_mapping_rule), OpaqueString::additional_mapping_rule,
// common::is_space_separator / is_non_ascii_space, Codepoints comparisons, binary_search_by.
use super::oracle;
use super::sup::*;
use precis_core::profile::Rules;
use precis_profiles::{Nickname, OpaqueString};

/// Nickname additional mapping on up to N fully symbolic characters (B = 4N bytes).
/// Oracle computed on the character array: Zs -> U+0020, trim, collapse; everything else kept in order.
pub fn nick_map<const N: usize, const B: usize, S: Src>(s: &mut S) {
    let x = SymStr::<N>::any(s);
    let mut buf = SBuf::<B>::new();
    x.fill(&mut buf);
    let input = buf.as_str();
    pv_note!(s, "Nickname::additional_mapping_rule({:?})", input);

    let mut exp = ['\0'; N];
    let mut m = 0usize;
    let mut pending = false;
    let mut i = 0;
    while i < N {
        if i < x.n {
            let c = x.cs[i];
            if oracle::is_zs(c as u32) {
                if m > 0 {
                    pending = true;
                }
            } else {
                if pending {
                    exp[m] = ' ';
                    m += 1;
                    pending = false;
                }
                exp[m] = c;
                m += 1;
            }
        }
        i += 1;
    }
    pv_cover!(s, x.n == N && m == N && N >= 3 && exp[1] == ' ', "COVER: full length, interior space kept");
    pv_cover!(s, x.n == N && m + 2 <= N && m >= 1 && (x.cs[0] as u32) >= 0x80 && !oracle::is_zs(x.cs[0] as u32),
        "COVER: multi-byte first character and something removed");

    let r = Nickname::new().additional_mapping_rule(input);
    match r {
        Ok(out) => {
            let mut got = ['\0'; N];
            let k = decode(&out, &mut got);
            pv_check!(s, k == m, "PV: nickname mapping keeps exactly the non-space characters plus single interior spaces (length)");
            let mut j = 0;
            let mut same = true;
            while j < N {
                if j < m && j < k && got[j] != exp[j] {
                    same = false;
                }
                j += 1;
            }
            pv_check!(s, same, "PV: nickname mapping output characters (order and identity)");
            // idempotent
            let r2 = Nickname::new().additional_mapping_rule(&*out);
            match r2 {
                Ok(out2) => {
                    let mut got2 = ['\0'; N];
                    let k2 = decode(&out2, &mut got2);
                    pv_check!(s, k2 == k && eq_chars(&got2, &got), "PV: nickname mapping is idempotent");
                }
                Err(_) => {
                    pv_check!(s, false, "PV: nickname mapping never fails (second application)");
                }
            }
        }
        Err(_) => {
            pv_check!(s, false, "PV: nickname mapping never fails");
        }
    }
}

/// OpaqueString additional mapping on up to N fully symbolic characters.
pub fn opaque_map<const N: usize, const B: usize, S: Src>(s: &mut S) {
    let x = SymStr::<N>::any(s);
    let mut buf = SBuf::<B>::new();
    x.fill(&mut buf);
    let input = buf.as_str();
    pv_note!(s, "OpaqueString::additional_mapping_rule({:?})", input);
    let mut changed = false;
    let mut i = 0;
    while i < N {
        if i < x.n && oracle::is_zs(x.cs[i] as u32) && x.cs[i] != ' ' {
            changed = true;
        }
        i += 1;
    }
    pv_cover!(s, changed && x.n == N && (x.cs[0] as u32) >= 0x10000, "COVER: 4-byte first character before a mapped space");
    let r = OpaqueString::new().additional_mapping_rule(input);
    match r {
        Ok(out) => {
            let mut got = ['\0'; N];
            let k = decode(&out, &mut got);
            pv_check!(s, k == x.n, "PV: password mapping keeps the number of characters");
            let mut j = 0;
            let mut same = true;
            while j < N {
                if j < x.n && j < k {
                    let c = x.cs[j];
                    let e = if oracle::is_zs(c as u32) { ' ' } else { c };
                    if got[j] != e {
                        same = false;
                    }
                }
                j += 1;
            }
            pv_check!(s, same, "PV: password mapping turns exactly the non-ASCII Zs characters into U+0020");
            let r2 = OpaqueString::new().additional_mapping_rule(&*out);
            match r2 {
                Ok(out2) => {
                    let mut got2 = ['\0'; N];
                    let k2 = decode(&out2, &mut got2);
                    pv_check!(s, k2 == k && eq_chars(&got2, &got), "PV: password mapping is idempotent");
                }
                Err(_) => {
                    pv_check!(s, false, "PV: password mapping never fails (second application)");
                }
            }
        }
        Err(_) => {
            pv_check!(s, false, "PV: password mapping never fails");
        }
    }
}

/// Layer A: one fully symbolic character through both rules (every scalar value).
pub fn one_char<S: Src>(s: &mut S) {
    let c = s.ch();
    let mut buf = SBuf::<4>::new();
    buf.push(c);
    let zs = oracle::is_zs(c as u32);
    pv_note!(s, "additional_mapping_rule({:?}) on OpaqueString and Nickname", buf.as_str());
    pv_cover!(s, zs && (c as u32) > 0x3000 - 1, "COVER: U+3000");
    match OpaqueString::new().additional_mapping_rule(buf.as_str()) {
        Ok(out) => {
            let mut it = out.chars();
            let first = it.next();
            let e = if zs { ' ' } else { c };
            pv_check!(s, first == Some(e) && it.next().is_none(), "PV: password mapping of one character");
        }
        Err(_) => {
            pv_check!(s, false, "PV: password mapping never fails");
        }
    }
    match Nickname::new().additional_mapping_rule(buf.as_str()) {
        Ok(out) => {
            if zs {
                pv_check!(s, out.is_empty(), "PV: nickname mapping deletes a lone space character");
            } else {
                let mut it = out.chars();
                pv_check!(s, it.next() == Some(c) && it.next().is_none(), "PV: nickname mapping keeps a lone non-space character");
            }
        }
        Err(_) => {
            pv_check!(s, false, "PV: nickname mapping never fails");
        }
    }
}
