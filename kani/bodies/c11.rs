// C11 — Width mapping replaces exactly the wide/narrow compatibility characters.
// Functions encoded: usernames::width_mapping_rule, get_decomposition_mapping, has_width_mapping
// (through UsernameCaseMapped/UsernameCasePreserved::width_mapping_rule), the generated 16.0.0
// WIDE_NARROW_MAPPING table (real, 226 entries), Codepoints comparisons, binary_search_by.
// Oracle: <wide>/<narrow> decomposition mappings recomputed from UnicodeData.txt 16.0.0.
use super::oracle;
use super::sup::*;
use precis_core::profile::Rules;
use precis_profiles::{UsernameCaseMapped, UsernameCasePreserved};

fn exp_char(c: char) -> char {
    let m = oracle::width_map(c as u32);
    if m == 0 {
        c
    } else {
        // every mapping target in the UCD is a scalar value (checked by gen.py)
        unsafe { char::from_u32_unchecked(m) }
    }
}

pub fn width_map<const N: usize, const B: usize, S: Src>(s: &mut S) {
    let x = SymStr::<N>::any(s);
    let mut buf = SBuf::<B>::new();
    x.fill(&mut buf);
    let input = buf.as_str();
    pv_note!(s, "UsernameCaseMapped::width_mapping_rule({:?})", input);
    let preserved = s.bool();
    pv_cover!(s, x.n == N && exp_char(x.cs[N - 1]) != x.cs[N - 1] && (N < 2 || ((x.cs[0] as u32) >= 0x10000 && exp_char(x.cs[0]) == x.cs[0])),
        "COVER: unmapped 4-byte character first (if N>=2), mapped character last");
    let r = if preserved {
        UsernameCasePreserved::new().width_mapping_rule(input)
    } else {
        UsernameCaseMapped::new().width_mapping_rule(input)
    };
    match r {
        Ok(out) => {
            let mut got = ['\0'; N];
            let k = decode(&out, &mut got);
            pv_check!(s, k == x.n, "PV: width mapping keeps the number of characters");
            let mut same = true;
            let mut j = 0;
            while j < N {
                if j < x.n && j < k && got[j] != exp_char(x.cs[j]) {
                    same = false;
                }
                j += 1;
            }
            pv_check!(s, same, "PV: exactly the <wide>/<narrow> characters are replaced by their mapping, per character");
            // applying it twice equals applying it once
            match UsernameCaseMapped::new().width_mapping_rule(&*out) {
                Ok(out2) => {
                    let mut got2 = ['\0'; N];
                    let k2 = decode(&out2, &mut got2);
                    pv_check!(s, k2 == k && eq_chars(&got2, &got), "PV: width mapping is idempotent");
                }
                Err(_) => {
                    pv_check!(s, false, "PV: width mapping never fails (second application)");
                }
            }
        }
        Err(_) => {
            pv_check!(s, false, "PV: width mapping never fails");
        }
    }
}

/// Layer A: exactly one character, every scalar value, one application, real table.
pub fn width_one<S: Src>(s: &mut S) {
    let c = s.ch();
    let mut buf = SBuf::<4>::new();
    buf.push(c);
    pv_note!(s, "UsernameCasePreserved::width_mapping_rule({:?})", buf.as_str());
    let e = exp_char(c);
    pv_cover!(s, e != c && (e as u32) < 0x80, "COVER: fullwidth ASCII variant");
    pv_cover!(s, e == c && (c as u32) >= 0x10000, "COVER: unmapped supplementary character");
    match UsernameCasePreserved::new().width_mapping_rule(buf.as_str()) {
        Ok(out) => {
            let mut it = out.chars();
            let a = it.next();
            let b = it.next();
            pv_check!(s, a == Some(e) && b.is_none(), "PV: one character maps to its <wide>/<narrow> mapping or stays");
        }
        Err(_) => {
            pv_check!(s, false, "PV: width mapping never fails");
        }
    }
}
