// Username pipelines (C04, and the username parts of C07 / C08 / C16).  In-crate (precis-profiles) because the Bidi
// stub needs the private BidiClass type.  Functions encoded (real code): Profile::{prepare, enforce, compare} and
// PrecisFastInvocation of UsernameCaseMapped / UsernameCasePreserved, usernames::width_mapping_rule,
// usernames::directionality_rule, bidi::has_rtl / satisfy_bidi_rule / is_valid_*_label, common::case_mapping_rule,
// StringClass::allows + context dispatch.  Stubs: S-STR, S-PIPE (+ Bidi), S-ONCE.
// Oracle: the RFC 8265 pipeline written with the crate's own public rule functions, in the RFC order.
use super::oracle;
use super::pipe::{same, spec_allows, spec_lower, spec_norm, str_eq, Arr, Res, Spec};
use super::sup::*;
use crate::{UsernameCaseMapped, UsernameCasePreserved};
use precis_core::profile::{PrecisFastInvocation, Profile, Rules};
use precis_core::{DerivedPropertyValue, Error, IdentifierClass, StringClass, UnexpectedError};
use std::borrow::Cow;

/// width mapping per character
fn spec_width<const M: usize>(a: &Arr<M>) -> Arr<M> {
    let mut r = *a;
    let mut i = 0;
    while i < M {
        if i < a.n {
            let w = oracle::sig_width(a.c[i] as u32);
            if w != 0 && w != 0xffffffff {
                r.c[i] = unsafe { char::from_u32_unchecked(w) };
            }
        }
        i += 1;
    }
    r
}

fn spec_prepare<const M: usize>(a: &Arr<M>) -> Spec<M> {
    let a1 = spec_width(a);
    if a1.n == 0 {
        return Err(Error::Invalid);
    }
    spec_allows(&a1, true)?;
    Ok(a1)
}

/// everything before the directionality rule
fn spec_enforce_pre<const M: usize>(a: &Arr<M>, mapped: bool) -> Option<Spec<M>> {
    let a1 = match spec_prepare(a) {
        Err(e) => return Some(Err(e)),
        Ok(x) => x,
    };
    let a2 = if mapped { spec_lower(&a1)? } else { a1 };
    let a3 = spec_norm(&a2, false)?;
    if a3.n == 0 {
        return Some(Err(Error::Invalid));
    }
    Some(Ok(a3))
}

/// the directionality step of the specification = the rule itself (C09 decides what it accepts), applied to the
/// specification's string: accept unchanged or Error::Invalid
fn spec_enforce<const M: usize, const B: usize>(a: &Arr<M>, mapped: bool) -> Option<Spec<M>> {
    match spec_enforce_pre(a, mapped)? {
        Err(e) => Some(Err(e)),
        Ok(a3) => {
            let mut b = SBuf::<B>::new();
            a3.fill(&mut b);
            let ok = !crate::bidi::has_rtl(b.as_str()) || crate::bidi::satisfy_bidi_rule(b.as_str());
            if ok {
                Some(Ok(a3))
            } else {
                Some(Err(Error::Invalid))
            }
        }
    }
}

pub fn username<const N: usize, const B: usize, const M: usize, const MAPPED: bool, const ENFORCE: bool, S: Src>(s: &mut S) {
    let x = SymStr::<N>::from_alphabet(s, &oracle::SIGMA_PIPE);
    let mut buf = SBuf::<B>::new();
    x.fill(&mut buf);
    let input = buf.as_str();
    let mapped = MAPPED;
    let do_enforce = ENFORCE;
    pv_note!(s, "{} {}({:?})", if mapped { "UsernameCaseMapped" } else { "UsernameCasePreserved" }, if do_enforce { "enforce" } else { "prepare" }, input);
    let a = Arr::<M>::from_sym(&x);
    if !do_enforce {
        let got = if mapped { UsernameCaseMapped::new().prepare(input) } else { UsernameCasePreserved::new().prepare(input) };
        let exp = spec_prepare(&a);
        pv_cover!(s, x.n == N && matches!(exp, Ok(ref e) if !e.eq(&a)), "COVER(prepare): prepare maps a wide character");
        pv_cover!(s, x.n == N && matches!(exp, Err(Error::BadCodepoint(_))), "COVER(prepare): rejected by IdentifierClass");
        pv_check!(s, same::<M>(&got, &exp), "PV: username prepare = width mapping, then non-empty, then IdentifierClass");
        std::mem::forget(got);
    } else {
        let got = if mapped { UsernameCaseMapped::new().enforce(input) } else { UsernameCasePreserved::new().enforce(input) };
        match spec_enforce::<M, 16>(&a, mapped) {
            None => {
                pv_check!(s, false, "MODEL: normalizer model capacity");
            }
            Some(exp) => {
                pv_cover!(s, x.n == N && matches!(exp, Ok(ref e) if e.n != a.n), "COVER(enforce,n2): enforce changes the length (NFC composition)");
                pv_cover!(s, x.n == N && spec_prepare(&a).is_ok() && matches!(exp, Err(Error::Invalid)), "COVER(enforce): prepared but rejected by the directionality rule");
                pv_cover!(s, x.n == N && mapped && matches!(exp, Ok(ref e) if !e.eq(&spec_width(&a))), "COVER(mapped_enforce): case mapping or NFC changes the prepared string");
                pv_check!(s, same::<M>(&got, &exp), "PV: username enforce = prepare, case mapping (mapped profile only), NFC, non-empty, directionality, in this order");
            }
        }
        std::mem::forget(got);
    }
}

/// compare() of a username profile with ONE symbolic operand and one constant operand (see pipe::compare_const_freeform)
pub fn compare_const_username<const N: usize, const B: usize, const M: usize, const MAPPED: bool, const K: usize, const CONST_FIRST: bool, S: Src>(s: &mut S) {
    let x = SymStr::<N>::from_alphabet(s, &oracle::SIGMA_PIPE);
    let mut buf = SBuf::<B>::new();
    x.fill(&mut buf);
    let input = buf.as_str();
    let k = super::pipe::CMP_CONSTS_ID[K];
    pv_note!(s, "username compare (mapped={}): symbolic {:?}, constant {:?} (constant first: {})", MAPPED, input, k, CONST_FIRST);
    let got = match (MAPPED, CONST_FIRST) {
        (true, false) => UsernameCaseMapped::new().compare(input, k),
        (true, true) => UsernameCaseMapped::new().compare(k, input),
        (false, false) => UsernameCasePreserved::new().compare(input, k),
        (false, true) => UsernameCasePreserved::new().compare(k, input),
    };
    let ka = {
        let mut c = ['\0'; M];
        let mut n = 0;
        for ch in k.chars() {
            c[n] = ch;
            n += 1;
        }
        Arr::<M> { c, n }
    };
    let ex = spec_enforce::<M, 16>(&Arr::<M>::from_sym(&x), MAPPED);
    let ek = spec_enforce::<M, 16>(&ka, MAPPED);
    if let (Some(ex), Some(ek)) = (ex, ek) {
        let (first, second) = if CONST_FIRST { (ek, ex) } else { (ex, ek) };
        let exp: Result<bool, Error> = match (first, second) {
            (Err(e), _) => Err(e),
            (Ok(_), Err(e)) => Err(e),
            (Ok(a), Ok(b)) => Ok(a.eq(&b)),
        };
        pv_cover!(s, exp == Ok(true), "COVER(k1): equal canonical forms");
        pv_cover!(s, exp == Ok(false), "COVER(k1): accepted, different");
        pv_cover!(s, matches!(exp, Err(Error::BadCodepoint(_))) && x.n > 0, "COVER: a class error is reported");
        pv_check!(s, got == exp, "PV: username compare(a, b) = (enforce(a)? == enforce(b)?), first operand's error first");
    } else {
        pv_check!(s, false, "MODEL: normalizer model capacity");
    }
}

pub fn compare_username<const N: usize, const B: usize, const M: usize, S: Src>(s: &mut S) {
    let xa = SymStr::<N>::from_alphabet(s, &oracle::SIGMA_PIPE);
    let xb = SymStr::<N>::from_alphabet(s, &oracle::SIGMA_PIPE);
    let mut ba = SBuf::<B>::new();
    let mut bb = SBuf::<B>::new();
    xa.fill(&mut ba);
    xb.fill(&mut bb);
    let mapped = s.bool();
    pv_note!(s, "username compare (mapped={}) ({:?}, {:?})", mapped, ba.as_str(), bb.as_str());
    let got = if mapped {
        UsernameCaseMapped::new().compare(ba.as_str(), bb.as_str())
    } else {
        UsernameCasePreserved::new().compare(ba.as_str(), bb.as_str())
    };
    let ea = spec_enforce::<M, 16>(&Arr::<M>::from_sym(&xa), mapped);
    let eb = spec_enforce::<M, 16>(&Arr::<M>::from_sym(&xb), mapped);
    if let (Some(ea), Some(eb)) = (ea, eb) {
        let exp: Result<bool, Error> = match (ea, eb) {
            (Err(e), _) => Err(e),
            (Ok(_), Err(e)) => Err(e),
            (Ok(a), Ok(b)) => Ok(a.eq(&b)),
        };
        pv_cover!(s, exp == Ok(true) && ba.len != bb.len, "COVER: equal canonical forms of different inputs");
        pv_cover!(s, exp == Ok(false), "COVER: accepted, different");
        pv_check!(s, got == exp, "PV: username compare(a, b) = (enforce(a)? == enforce(b)?), first operand's error first");
    } else {
        pv_check!(s, false, "MODEL: normalizer model capacity");
    }
}

pub fn no_drift_username<const N: usize, const B: usize, const M: usize, const MAPPED: bool, S: Src>(s: &mut S) {
    let y = SymStr::<N>::from_alphabet(s, &oracle::SIGMA_PIPE);
    let ya = Arr::<M>::from_sym(&y);
    match spec_enforce::<M, 16>(&ya, MAPPED) {
        None => {
            pv_check!(s, false, "MODEL: normalizer model capacity");
        }
        Some(Err(_)) => {}
        Some(Ok(e)) => {
            let mut buf = SBuf::<B>::new();
            e.fill(&mut buf);
            pv_note!(s, "username (mapped={}): enforce of the canonical form {:?}", MAPPED, buf.as_str());
            pv_cover!(s, !e.eq(&ya), "COVER: a canonical form that differs from its input");
            let again = if MAPPED { UsernameCaseMapped::new().enforce(buf.as_str()) } else { UsernameCasePreserved::new().enforce(buf.as_str()) };
            let ok = match again {
                Ok(ref f) => {
                    let mut fa = ['\0'; M];
                    let kf = decode(f, &mut fa);
                    (Arr::<M> { c: fa, n: kf }).eq(&e)
                }
                Err(_) => true,
            };
            pv_check!(s, ok, "PV: enforcing an enforced username never yields a different string");
            let mut bad = false;
            let mut i = 0;
            while i < M {
                if i < e.n {
                    let v = IdentifierClass::default().get_value_from_char(e.c[i]);
                    if v == DerivedPropertyValue::Disallowed || v == DerivedPropertyValue::Unassigned {
                        bad = true;
                    }
                }
                i += 1;
            }
            pv_check!(s, !bad, "PV: no code point of an enforced username is DISALLOWED or UNASSIGNED in IdentifierClass");
            std::mem::forget(again);
        }
    }
}

/// One API form of one operation of a username profile against the specification (see pipe::api_form_freeform).
/// FORM: 0 static prepare, 1 static enforce, 2 static compare(x, "a"), 3 enforce(String), 4 enforce(Cow)
pub fn api_form_username<const N: usize, const B: usize, const M: usize, const MAPPED: bool, const FORM: usize, S: Src>(s: &mut S) {
    let x = SymStr::<N>::from_alphabet(s, &oracle::SIGMA_PIPE);
    let mut buf = SBuf::<B>::new();
    x.fill(&mut buf);
    let input = buf.as_str();
    pv_note!(s, "username (mapped={}) API form {} on {:?}", MAPPED, FORM, input);
    let a = Arr::<M>::from_sym(&x);
    if FORM == 2 {
        let got = if MAPPED {
            <UsernameCaseMapped as PrecisFastInvocation>::compare(input, "a")
        } else {
            <UsernameCasePreserved as PrecisFastInvocation>::compare(input, "a")
        };
        let ka = Arr::<M> { c: { let mut c = ['\0'; M]; c[0] = 'a'; c }, n: 1 };
        if let (Some(ex), Some(ek)) = (spec_enforce::<M, 16>(&a, MAPPED), spec_enforce::<M, 16>(&ka, MAPPED)) {
            let exp: Result<bool, Error> = match (ex, ek) {
                (Err(e), _) => Err(e),
                (Ok(_), Err(e)) => Err(e),
                (Ok(p), Ok(q)) => Ok(p.eq(&q)),
            };
            pv_cover!(s, exp == Ok(true), "COVER(f2): equal");
            pv_check!(s, got == exp, "PV: static compare = the specification's compare (usernames)");
        } else {
            pv_check!(s, false, "MODEL: normalizer model capacity");
        }
        return;
    }
    let exp: Option<Spec<M>> = if FORM == 0 { Some(spec_prepare(&a)) } else { spec_enforce::<M, 16>(&a, MAPPED) };
    let got: Res = match (FORM, MAPPED) {
        (0, true) => <UsernameCaseMapped as PrecisFastInvocation>::prepare(input),
        (0, false) => <UsernameCasePreserved as PrecisFastInvocation>::prepare(input),
        (1, true) => <UsernameCaseMapped as PrecisFastInvocation>::enforce(input),
        (1, false) => <UsernameCasePreserved as PrecisFastInvocation>::enforce(input),
        (3, true) => UsernameCaseMapped::new().enforce(String::from(input)),
        (3, false) => UsernameCasePreserved::new().enforce(String::from(input)),
        (_, true) => UsernameCaseMapped::new().enforce(Cow::Borrowed(input)),
        (_, false) => UsernameCasePreserved::new().enforce(Cow::Borrowed(input)),
    };
    match exp {
        None => {
            pv_check!(s, false, "MODEL: normalizer model capacity");
        }
        Some(exp) => {
            pv_cover!(s, x.n == N && exp.is_ok(), "COVER: accepted");
            pv_check!(s, same::<M>(&got, &exp), "PV: every API form (static singleton, String, Cow) gives the specified result (usernames)");
        }
    }
    std::mem::forget(got);
}

pub fn binding_username<S: Src>(s: &mut S) {
    let na = Err(Error::Unexpected(UnexpectedError::ProfileRuleNotApplicable));
    let fw = "\u{ff21}";
    let m = UsernameCaseMapped::new();
    let p = UsernameCasePreserved::new();
    pv_check!(s, matches!(m.normalization_rule("\u{2126}"), Ok(ref r) if str_eq::<2>(r, "\u{3a9}")), "PV: UsernameCaseMapped normalization composes canonically (OHM SIGN)");
    pv_check!(s, matches!(m.normalization_rule(fw), Ok(ref r) if str_eq::<2>(r, fw)), "PV: UsernameCaseMapped normalization is NFC, not NFKC");
    pv_check!(s, matches!(p.normalization_rule(fw), Ok(ref r) if str_eq::<2>(r, fw)), "PV: UsernameCasePreserved normalization is NFC, not NFKC");
    pv_check!(s, matches!(m.width_mapping_rule(fw), Ok(ref r) if str_eq::<2>(r, "A")), "PV: UsernameCaseMapped width mapping");
    pv_check!(s, matches!(p.width_mapping_rule(fw), Ok(ref r) if str_eq::<2>(r, "A")), "PV: UsernameCasePreserved width mapping");
    pv_check!(s, matches!(m.case_mapping_rule("A"), Ok(ref r) if str_eq::<2>(r, "a")), "PV: UsernameCaseMapped case mapping lowercases");
    pv_check!(s, p.case_mapping_rule("A") == na, "PV: UsernameCasePreserved has no case mapping rule");
    pv_check!(s, m.additional_mapping_rule("a") == na && p.additional_mapping_rule("a") == na, "PV: usernames have no additional mapping rule");
    pv_check!(s, m.directionality_rule("\u{5d0}a") == Err(Error::Invalid), "PV: UsernameCaseMapped directionality rule is bound");
    pv_check!(s, p.directionality_rule("\u{5d0}a") == Err(Error::Invalid), "PV: UsernameCasePreserved directionality rule is bound");
    pv_cover!(s, true, "COVER: reached");
}

/// Constant multi-character witnesses for the interactions that one symbolic character cannot show (order of case
/// mapping and NFC, width then case then NFC, NFC then directionality, width mapping then class error): both username
/// profiles, prepare and enforce, against the specification.  Inputs are constants (folded by the solver).
pub fn order_witnesses<const K: usize, S: Src>(s: &mut S) {
    const W: [&str; 8] = [
        "J\u{30c}",                 // lowercase then compose (U+01F0) != compose then lowercase
        "\u{ff21}\u{301}",          // fullwidth A + acute: width, case, NFC -> U+00E1
        "\u{2126}a",                // OHM SIGN: NFC singleton, then lowercase order
        "\u{5d0}1",                 // R EN: valid RTL label
        "\u{5d0}\u{660}1",          // AN and EN mixed: directionality rejects
        "a\u{3000}",                // width mapping produces U+0020: IdentifierClass rejects the MAPPED character
        "e\u{301}\u{5d0}",          // L ... R: LTR label with an R character
        "\u{ff21}\u{ff21}\u{30c}",  // three characters, composition at the end
    ];
    {
        let input = W[K];
        let a = super::pipe::arr_of_str::<8>(input);
        pv_note!(s, "username witnesses: {:?}", input);
        let m = UsernameCaseMapped::new();
        let p = UsernameCasePreserved::new();
        match (spec_enforce::<8, 32>(&a, true), spec_enforce::<8, 32>(&a, false)) {
            (Some(em), Some(ep)) => {
                pv_check!(s, same::<8>(&m.enforce(input), &em), "PV: UsernameCaseMapped.enforce on a multi-character witness (order of the steps)");
                pv_check!(s, same::<8>(&p.enforce(input), &ep), "PV: UsernameCasePreserved.enforce on a multi-character witness (order of the steps)");
            }
            _ => {
                pv_check!(s, false, "MODEL: normalizer model capacity");
            }
        }
    }
    pv_cover!(s, true, "COVER: reached");
}
