// Pipeline harnesses for the FreeformClass profiles (C05 OpaqueString, C06 Nickname) and the profile-independent parts of
// C07 / C08 / C16.  Functions encoded (real code): Profile::{prepare, enforce, compare} and PrecisFastInvocation of
// OpaqueString and Nickname, Nickname::apply_{prepare,enforce,compare}_rules, precis_core::profile::stabilize, the Rules
// methods they bind, StringClass::allows, trim_spaces / find_disallowed_space, the password space mapping,
// common::case_mapping_rule.  Stub set S-PIPE + S-STR (+ S-ONCE for the lazy statics).
// Oracle: the statement written over CHARACTER ARRAYS with the oracle functions (derived property, Zs, lowercase,
// normalizer model) -- it shares no code with the implementation and calls none of its functions.
use super::oracle;
use super::sup::*;
use precis_core::profile::{PrecisFastInvocation, Profile, Rules};
use precis_core::{CodepointInfo, DerivedPropertyValue, Error, FreeformClass, StringClass, UnexpectedError};
use super::precis_profiles::{Nickname, OpaqueString};
use std::borrow::Cow;

pub type Res<'a> = Result<Cow<'a, str>, Error>;

/// a string as a character array (first n entries)
#[derive(Clone, Copy)]
pub struct Arr<const M: usize> {
    pub c: [char; M],
    pub n: usize,
}

pub type Spec<const M: usize> = Result<Arr<M>, Error>;

impl<const M: usize> Arr<M> {
    pub fn from_sym<const N: usize>(x: &SymStr<N>) -> Self {
        let mut c = ['\0'; M];
        let mut i = 0;
        while i < N {
            if i < x.n {
                c[i] = x.cs[i];
            }
            i += 1;
        }
        Arr { c, n: x.n }
    }
    pub fn eq(&self, o: &Arr<M>) -> bool {
        let mut same = self.n == o.n;
        let mut i = 0;
        while i < M {
            if i < self.n && i < o.n && self.c[i] != o.c[i] {
                same = false;
            }
            i += 1;
        }
        same
    }
    pub fn fill<const B: usize>(&self, buf: &mut SBuf<B>) {
        let mut i = 0;
        while i < M {
            if i < self.n {
                buf.push(self.c[i]);
            }
            i += 1;
        }
    }
}

/// result of the implementation == specification (strings compared character by character)
pub fn same<const M: usize>(got: &Res, exp: &Spec<M>) -> bool {
    match (got, exp) {
        (Ok(g), Ok(e)) => {
            let mut ga = ['\0'; M];
            let k = decode(g, &mut ga);
            k <= M && (Arr::<M> { c: ga, n: k }).eq(e)
        }
        (Err(g), Err(e)) => g == e,
        _ => false,
    }
}

pub fn dpv_of(v: u8) -> DerivedPropertyValue {
    super::c14::dpv_of(v)
}

/// StringClass::allows over the alphabet: first offending character (the only contextual one, U+0660, is always allowed)
pub fn spec_allows<const M: usize>(a: &Arr<M>, ident: bool) -> Result<(), Error> {
    let mut i = 0;
    while i < M {
        if i < a.n {
            let v = oracle::sig_dpv(a.c[i] as u32);
            let v = if ident { v / 8 } else { v % 8 };
            if v == 2 || v == 5 || v == 6 {
                return Err(Error::BadCodepoint(CodepointInfo::new(a.c[i] as u32, i, dpv_of(v))));
            }
        }
        i += 1;
    }
    Ok(())
}

/// every non-ASCII Zs -> U+0020
pub fn spec_space_opaque<const M: usize>(a: &Arr<M>) -> Arr<M> {
    let mut r = *a;
    let mut i = 0;
    while i < M {
        if i < a.n && oracle::sig_is_zs(a.c[i] as u32) == 1 {
            r.c[i] = ' ';
        }
        i += 1;
    }
    r
}

/// Zs -> U+0020, trim, collapse
pub fn spec_space_nick<const M: usize>(a: &Arr<M>) -> Arr<M> {
    let mut r = Arr::<M> { c: ['\0'; M], n: 0 };
    let mut pending = false;
    let mut i = 0;
    while i < M {
        if i < a.n {
            if oracle::sig_is_zs(a.c[i] as u32) == 1 {
                if r.n > 0 {
                    pending = true;
                }
            } else {
                if pending {
                    r.c[r.n] = ' ';
                    r.n += 1;
                    pending = false;
                }
                r.c[r.n] = a.c[i];
                r.n += 1;
            }
        }
        i += 1;
    }
    r
}

/// per-character lowercase (every character of the alphabet has a single-character mapping; checked)
pub fn spec_lower<const M: usize>(a: &Arr<M>) -> Option<Arr<M>> {
    let mut r = *a;
    let mut i = 0;
    while i < M {
        if i < a.n {
            match oracle::sig_to_lower(a.c[i]) {
                Some(l) => {
                    if l[1] != '\0' {
                        return None;
                    }
                    r.c[i] = l[0];
                }
                None => return None,
            }
        }
        i += 1;
    }
    Some(r)
}

pub fn spec_norm<const M: usize>(a: &Arr<M>, compat: bool) -> Option<Arr<M>> {
    let mut out = ['\0'; M];
    let n = super::norm_model::normalize_arr::<M>(&a.c, a.n, compat, &mut out)?;
    Some(Arr { c: out, n })
}

fn freeform_prepare<const M: usize>(a: &Arr<M>) -> Spec<M> {
    if a.n == 0 {
        return Err(Error::Invalid);
    }
    spec_allows(a, false)?;
    Ok(*a)
}

// ------------------------------------------------------------------------------------------ C05 OpaqueString
pub fn opaque<const N: usize, const B: usize, const M: usize, const ENFORCE: bool, S: Src>(s: &mut S) {
    let x = SymStr::<N>::from_alphabet(s, &oracle::SIGMA_PIPE);
    let mut buf = SBuf::<B>::new();
    x.fill(&mut buf);
    let input = buf.as_str();
    pv_note!(s, "OpaqueString prepare/enforce({:?})", input);
    let a = Arr::<M>::from_sym(&x);
    let p = OpaqueString::new();
    let exp_prep = freeform_prepare(&a);
    let do_enforce = ENFORCE;
    if !do_enforce {
        let got_prep = p.prepare(input);
        pv_check!(s, same::<M>(&got_prep, &exp_prep), "PV: OpaqueString.prepare = non-empty and accepted by FreeformClass, string unchanged");
        pv_cover!(s, x.n == N && got_prep.is_ok(), "COVER(prepare): prepared");
        pv_cover!(s, x.n == N && matches!(exp_prep, Err(Error::BadCodepoint(_))), "COVER(prepare): rejected by FreeformClass");
        std::mem::forget(got_prep);
    } else {
        let got_enf = p.enforce(input);
        let exp_enf: Spec<M> = match exp_prep {
            Err(ref e) => Err(clone_err(e)),
            Ok(ref a1) => match spec_norm(&spec_space_opaque(a1), false) {
                None => {
                    pv_check!(s, false, "MODEL: normalizer model capacity");
                    Err(Error::Invalid)
                }
                Some(r) => {
                    if r.n == 0 {
                        Err(Error::Invalid)
                    } else {
                        Ok(r)
                    }
                }
            },
        };
        pv_cover!(s, x.n == N && matches!(exp_enf, Ok(ref e) if !e.eq(&a)), "COVER(enforce): enforce changes the string (space mapping or NFC)");
        pv_check!(s, same::<M>(&got_enf, &exp_enf), "PV: OpaqueString.enforce = prepare, then non-ASCII space mapping, then NFC, then non-empty check");
        std::mem::forget(got_enf);
    }
}

/// Error is not Clone: rebuild an equal value
pub fn clone_err(e: &Error) -> Error {
    use precis_core::CodepointInfo as CI;
    match e {
        Error::Invalid => Error::Invalid,
        Error::BadCodepoint(i) => Error::BadCodepoint(CI::new(i.cp, i.position, i.property)),
        Error::Unexpected(UnexpectedError::ContextRuleNotApplicable(i)) => {
            Error::Unexpected(UnexpectedError::ContextRuleNotApplicable(CI::new(i.cp, i.position, i.property)))
        }
        Error::Unexpected(UnexpectedError::MissingContextRule(i)) => {
            Error::Unexpected(UnexpectedError::MissingContextRule(CI::new(i.cp, i.position, i.property)))
        }
        Error::Unexpected(UnexpectedError::ProfileRuleNotApplicable) => Error::Unexpected(UnexpectedError::ProfileRuleNotApplicable),
        Error::Unexpected(UnexpectedError::Undefined) => Error::Unexpected(UnexpectedError::Undefined),
    }
}

// ------------------------------------------------------------------------------------------ C06 Nickname
/// one application of the nickname rules (enforcement rules, or comparison rules = + lowercase, no empty check)
fn nick_round<const M: usize>(a: &Arr<M>, compare_rules: bool) -> Option<Spec<M>> {
    let a1 = match freeform_prepare(a) {
        Err(e) => return Some(Err(e)),
        Ok(x) => x,
    };
    let a2 = spec_space_nick(&a1);
    let a2 = if compare_rules { spec_lower(&a2)? } else { a2 };
    let a3 = spec_norm(&a2, true)?;
    if !compare_rules && a3.n == 0 {
        return Some(Err(Error::Invalid));
    }
    Some(Ok(a3))
}

/// the statement's loop: first application plus three re-applications, the first unchanged result wins
pub fn nick_fixpoint<const M: usize>(a: &Arr<M>, compare_rules: bool) -> Option<Spec<M>> {
    let mut cur = *a;
    let mut i = 0;
    while i < 4 {
        match nick_round(&cur, compare_rules)? {
            Err(e) => return Some(Err(e)),
            Ok(t) => {
                if t.eq(&cur) {
                    return Some(Ok(t));
                }
                cur = t;
            }
        }
        i += 1;
    }
    Some(Err(Error::Invalid))
}

pub fn nickname<const N: usize, const B: usize, const M: usize, const ENFORCE: bool, S: Src>(s: &mut S) {
    let x = SymStr::<N>::from_alphabet(s, &oracle::SIGMA_PIPE);
    let mut buf = SBuf::<B>::new();
    x.fill(&mut buf);
    let input = buf.as_str();
    pv_note!(s, "Nickname prepare/enforce({:?})", input);
    let a = Arr::<M>::from_sym(&x);
    let p = Nickname::new();
    let do_enforce = ENFORCE;
    if !do_enforce {
        let got_prep = p.prepare(input);
        let exp_prep = freeform_prepare(&a);
        pv_check!(s, same::<M>(&got_prep, &exp_prep), "PV: Nickname.prepare = non-empty and accepted by FreeformClass, string unchanged");
        pv_cover!(s, x.n == N && got_prep.is_ok(), "COVER(prepare): prepared");
        std::mem::forget(got_prep);
    } else {
        let got = p.enforce(input);
        match nick_fixpoint(&a, false) {
            None => {
                pv_check!(s, false, "MODEL: normalizer model capacity");
            }
            Some(exp) => {
                pv_cover!(s, x.n == N && matches!(exp, Ok(ref e) if e.n < a.n), "COVER(enforce): enforce shortens the string");
                pv_cover!(s, x.n == N && matches!(exp, Ok(ref e) if e.n > a.n), "COVER(enforce): enforce lengthens the string (NFKC expansion)");
                pv_cover!(s, x.n == N && matches!(exp, Err(Error::Invalid)), "COVER(enforce): rejected as empty or unstable");
                pv_check!(s, same::<M>(&got, &exp), "PV: Nickname.enforce = the RFC 8266 rules re-applied until stable (first + three re-applications)");
                if let Ok(ref e) = exp {
                    // every accepted result is a fixed point of the nickname rules
                    let again = nick_round(e, false);
                    pv_check!(s, matches!(again, Some(Ok(ref t)) if t.eq(e)), "PV: every accepted Nickname result is a fixed point of the rules");
                }
            }
        }
        std::mem::forget(got);
    }
}

/// Quick variant with S-STAB2 (stabilize = apply twice): Nickname::enforce / compare must equal two applications of the
/// statement's one-round function (enforcement rules, or comparison rules when CMP).
pub fn nickname_two_rounds<const N: usize, const B: usize, const M: usize, const CMP: bool, S: Src>(s: &mut S) {
    let x = SymStr::<N>::from_alphabet(s, &oracle::SIGMA_PIPE);
    let mut buf = SBuf::<B>::new();
    x.fill(&mut buf);
    let input = buf.as_str();
    pv_note!(s, "Nickname two applications of the {} rules on {:?}", if CMP { "comparison" } else { "enforcement" }, input);
    let a = Arr::<M>::from_sym(&x);
    let exp: Option<Spec<M>> = match nick_round(&a, CMP) {
        None => None,
        Some(Err(e)) => Some(Err(e)),
        Some(Ok(t)) => nick_round(&t, CMP),
    };
    let p = Nickname::new();
    match exp {
        None => {
            pv_check!(s, false, "MODEL: normalizer model capacity");
        }
        Some(exp) => {
            pv_cover!(s, x.n == N && matches!(exp, Err(Error::BadCodepoint(ref i)) if i.cp != x.cs[0] as u32), "COVER: the second application rejects a code point the first one produced");
            pv_cover!(s, x.n == N && matches!(exp, Ok(ref e) if !e.eq(&a)), "COVER: two applications change the string");
            if !CMP {
                let got = p.enforce(input);
                pv_check!(s, same::<M>(&got, &exp), "PV: each application of the Nickname enforcement rules = validate, space rule, NFKC, non-empty (two applications)");
                std::mem::forget(got);
            } else {
                // compare(x, x) under S-STAB2 is Ok(true) iff two applications of the comparison rules succeed
                let got = p.compare(input, input);
                let e: Result<bool, Error> = match exp {
                    Ok(_) => Ok(true),
                    Err(e) => Err(e),
                };
                pv_check!(s, got == e, "PV: each application of the Nickname comparison rules = validate, space rule, lowercase, NFKC (two applications)");
            }
        }
    }
}

/// a second round is really needed for some inputs (witness that re-application matters)
pub fn nickname_rounds<S: Src>(s: &mut S) {
    // U+00B4 ACUTE ACCENT: NFKC gives U+0020 U+0301, so the first round produces an interior space, and
    // "\u{b4}a" produces a LEADING space that only the second round removes
    let p = Nickname::new();
    let a = Arr::<8> { c: ['\u{b4}', 'a', '\0', '\0', '\0', '\0', '\0', '\0'], n: 2 };
    let r1 = nick_round(&a, false);
    pv_cover!(s, matches!(r1, Some(Ok(ref t)) if !t.eq(&a)), "COVER: the first round changes the string");
    let got = p.enforce("\u{b4}a");
    match nick_fixpoint(&a, false) {
        Some(exp) => {
            pv_check!(s, same::<8>(&got, &exp), "PV: Nickname.enforce on an input whose NFKC form introduces a leading space");
            pv_cover!(s, matches!(exp, Ok(ref e) if e.n == 2 && e.c[0] == '\u{301}'), "COVER: stable after the second round");
        }
        None => {
            pv_check!(s, false, "MODEL: normalizer model capacity");
        }
    }
    std::mem::forget(got);
}

// ------------------------------------------------------------------------------------------ C07 compare (Freeform profiles)
fn cmp_spec<const M: usize>(ea: Spec<M>, eb: Spec<M>) -> Result<bool, Error> {
    match (ea, eb) {
        (Err(e), _) => Err(e),
        (Ok(_), Err(e)) => Err(e),
        (Ok(a), Ok(b)) => Ok(a.eq(&b)),
    }
}

fn opaque_enforce_spec<const M: usize>(a: &Arr<M>) -> Option<Spec<M>> {
    let a1 = match freeform_prepare(a) {
        Err(e) => return Some(Err(e)),
        Ok(x) => x,
    };
    let r = spec_norm(&spec_space_opaque(&a1), false)?;
    if r.n == 0 {
        Some(Err(Error::Invalid))
    } else {
        Some(Ok(r))
    }
}

pub fn compare_opaque<const N: usize, const B: usize, const M: usize, S: Src>(s: &mut S) {
    let xa = SymStr::<N>::from_alphabet(s, &oracle::SIGMA_PIPE);
    let xb = SymStr::<N>::from_alphabet(s, &oracle::SIGMA_PIPE);
    let mut ba = SBuf::<B>::new();
    let mut bb = SBuf::<B>::new();
    xa.fill(&mut ba);
    xb.fill(&mut bb);
    pv_note!(s, "OpaqueString::compare({:?}, {:?})", ba.as_str(), bb.as_str());
    let got = OpaqueString::new().compare(ba.as_str(), bb.as_str());
    let (ea, eb) = (opaque_enforce_spec(&Arr::<M>::from_sym(&xa)), opaque_enforce_spec(&Arr::<M>::from_sym(&xb)));
    if let (Some(ea), Some(eb)) = (ea, eb) {
        let exp = cmp_spec(ea, eb);
        pv_cover!(s, exp == Ok(true) && ba.len != bb.len, "COVER: equal canonical forms of different inputs");
        pv_cover!(s, exp == Ok(false), "COVER: accepted, different");
        pv_cover!(s, exp.is_err() && xa.n > 0 && xb.n > 0, "COVER: one side rejected by the class");
        pv_check!(s, got == exp, "PV: OpaqueString.compare(a, b) = (enforce(a)? == enforce(b)?), first operand's error first");
    } else {
        pv_check!(s, false, "MODEL: normalizer model capacity");
    }
}

pub fn compare_nickname<const N: usize, const B: usize, const M: usize, S: Src>(s: &mut S) {
    let xa = SymStr::<N>::from_alphabet(s, &oracle::SIGMA_PIPE);
    let xb = SymStr::<N>::from_alphabet(s, &oracle::SIGMA_PIPE);
    let mut ba = SBuf::<B>::new();
    let mut bb = SBuf::<B>::new();
    xa.fill(&mut ba);
    xb.fill(&mut bb);
    pv_note!(s, "Nickname::compare({:?}, {:?})", ba.as_str(), bb.as_str());
    let got = Nickname::new().compare(ba.as_str(), bb.as_str());
    let (ea, eb) = (nick_fixpoint(&Arr::<M>::from_sym(&xa), true), nick_fixpoint(&Arr::<M>::from_sym(&xb), true));
    if let (Some(ea), Some(eb)) = (ea, eb) {
        let exp = cmp_spec(ea, eb);
        pv_cover!(s, exp == Ok(true) && ba.len != bb.len, "COVER: equal comparison forms of different inputs");
        pv_cover!(s, exp == Ok(false), "COVER: accepted, different");
        pv_check!(s, got == exp, "PV: Nickname.compare = equality of (rules + lowercase mapping iterated to stability), first operand's error first");
    } else {
        pv_check!(s, false, "MODEL: normalizer model capacity");
    }
}

// ------------------------------------------------------------------------------------------ C08 no drift (Freeform profiles)
pub fn no_drift_freeform<const N: usize, const B: usize, const M: usize, S: Src>(s: &mut S) {
    let x = SymStr::<N>::from_alphabet(s, &oracle::SIGMA_PIPE);
    let mut buf = SBuf::<B>::new();
    x.fill(&mut buf);
    let nick = s.bool();
    pv_note!(s, "{}: enforce(enforce({:?}))", if nick { "Nickname" } else { "OpaqueString" }, buf.as_str());
    let e1 = if nick { Nickname::new().enforce(buf.as_str()) } else { OpaqueString::new().enforce(buf.as_str()) };
    if let Ok(ref e) = e1 {
        let mut ea = ['\0'; M];
        let k = decode(e, &mut ea);
        let first = Arr::<M> { c: ea, n: k };
        pv_cover!(s, e.len() != buf.len, "COVER: enforcement changed the input");
        let e2 = if nick { Nickname::new().enforce(&**e) } else { OpaqueString::new().enforce(&**e) };
        let ok = match e2 {
            Ok(ref f) => {
                let mut fa = ['\0'; M];
                let kf = decode(f, &mut fa);
                (Arr::<M> { c: fa, n: kf }).eq(&first)
            }
            Err(_) => true,
        };
        pv_check!(s, ok, "PV: enforcing an enforced string never yields a different string (it returns it or an error)");
        // no universally forbidden code point in the output (derived property in the profile's own class)
        let mut bad = false;
        let mut i = 0;
        while i < M {
            if i < k {
                let v = FreeformClass::default().get_value_from_char(ea[i]);
                if v == DerivedPropertyValue::Disallowed || v == DerivedPropertyValue::Unassigned {
                    bad = true;
                }
            }
            i += 1;
        }
        pv_check!(s, !bad, "PV: no code point of an enforced string is DISALLOWED or UNASSIGNED in FreeformClass");
        std::mem::forget(e2);
    }
    std::mem::forget(e1);
}

// ------------------------------------------------------------------------------------------ C16 API forms (Freeform profiles)
pub fn api_forms_freeform<const N: usize, const B: usize, const M: usize, S: Src>(s: &mut S) {
    let x = SymStr::<N>::from_alphabet(s, &oracle::SIGMA_PIPE);
    let mut buf = SBuf::<B>::new();
    x.fill(&mut buf);
    let input = buf.as_str();
    let nick = s.bool();
    let op = s.below(2); // 0 prepare 1 enforce
    let form = s.below(4); // 0 static  1 String  2 Cow  3 long-lived instance after another call
    pv_note!(s, "{} op {} form {} on {:?}", if nick { "Nickname" } else { "OpaqueString" }, op, form, input);
    macro_rules! run {
        ($inst:expr, $arg:expr) => {{
            let a: Res = if op == 0 { $inst.prepare($arg) } else { $inst.enforce($arg) };
            a
        }};
    }
    macro_rules! run_static {
        ($ty:ty, $arg:expr) => {{
            let a: Res = if op == 0 { <$ty as PrecisFastInvocation>::prepare($arg) } else { <$ty as PrecisFastInvocation>::enforce($arg) };
            a
        }};
    }
    let base: Res = if nick { run!(Nickname::new(), input) } else { run!(OpaqueString::new(), input) };
    let mut ba = ['\0'; M];
    let kb = match base {
        Ok(ref b) => decode(b, &mut ba),
        Err(_) => 0,
    };
    let base_spec: Spec<M> = match base {
        Ok(_) => Ok(Arr { c: ba, n: kb }),
        Err(ref e) => Err(clone_err(e)),
    };
    let other: Res = match form {
        0 => {
            if nick { run_static!(Nickname, input) } else { run_static!(OpaqueString, input) }
        }
        1 => {
            if nick { run!(Nickname::new(), String::from(input)) } else { run!(OpaqueString::new(), String::from(input)) }
        }
        2 => {
            if nick { run!(Nickname::new(), Cow::Borrowed(input)) } else { run!(OpaqueString::new(), Cow::Borrowed(input)) }
        }
        _ => {
            let o = SymStr::<1>::from_alphabet(s, &oracle::SIGMA_PIPE);
            let mut ob = SBuf::<4>::new();
            o.fill(&mut ob);
            if nick {
                let inst = Nickname::new();
                let first = inst.enforce(ob.as_str());
                std::mem::forget(first);
                run!(inst, input)
            } else {
                let inst = OpaqueString::new();
                let first = inst.enforce(ob.as_str());
                std::mem::forget(first);
                run!(inst, input)
            }
        }
    };
    pv_cover!(s, x.n == N && form == 0 && matches!(base, Ok(ref e) if e.len() != input.len()), "COVER: a changed result through the static form");
    pv_check!(s, same::<M>(&other, &base_spec), "PV: static / String / Cow / reused-instance forms give the result of a fresh instance on &str");
    std::mem::forget(other);
    std::mem::forget(base);
}

// ------------------------------------------------------------------------------------------ rule binding
pub fn str_eq<const M: usize>(x: &str, y: &str) -> bool {
    let mut xa = ['\0'; M];
    let mut ya = ['\0'; M];
    let kx = decode(x, &mut xa);
    let ky = decode(y, &mut ya);
    kx == ky && kx <= M && eq_chars(&xa, &ya)
}

pub fn binding_freeform<S: Src>(s: &mut S) {
    let na = Err(Error::Unexpected(UnexpectedError::ProfileRuleNotApplicable));
    let fw = "\u{ff21}"; // FULLWIDTH LATIN CAPITAL LETTER A: NFC keeps it, NFKC gives 'A'
    let o = OpaqueString::new();
    let n = Nickname::new();
    pv_check!(s, matches!(o.normalization_rule(fw), Ok(ref r) if str_eq::<2>(r, fw)), "PV: OpaqueString normalization is NFC (compatibility characters survive)");
    pv_check!(s, matches!(n.normalization_rule(fw), Ok(ref r) if str_eq::<2>(r, "A")), "PV: Nickname normalization is NFKC");
    pv_check!(s, o.case_mapping_rule("A") == na, "PV: OpaqueString has no case mapping rule");
    pv_check!(s, o.width_mapping_rule(fw) == na, "PV: OpaqueString has no width mapping rule");
    pv_check!(s, n.width_mapping_rule(fw) == na, "PV: Nickname has no width mapping rule");
    pv_check!(s, o.directionality_rule("a") == na && n.directionality_rule("a") == na, "PV: the Freeform profiles have no directionality rule");
    pv_check!(s, matches!(n.case_mapping_rule("A"), Ok(ref r) if str_eq::<2>(r, "a")), "PV: Nickname case mapping lowercases");
    pv_cover!(s, true, "COVER: reached");
}
