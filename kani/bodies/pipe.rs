// Pipeline harnesses for the FreeformClass profiles (C05 OpaqueString, C06 Nickname) and the profile-independent parts of
// C07 / C08 / C16.  Functions encoded (real code): Profile::{prepare, enforce, compare} and PrecisFastInvocation of
// OpaqueString and Nickname, Nickname::apply_{prepare,enforce,compare}_rules, precis_core::profile::stabilize, the Rules
// methods they bind, StringClass::allows, trim_spaces / find_disallowed_space, the password space mapping,
// common::case_mapping_rule.  Stub set S-PIPE + S-STR (+ S-ONCE for the lazy statics).
// Oracle: the statement written over CHARACTER ARRAYS with the oracle functions (derived property, Zs, lowercase,
// normalizer model) -- it shares no code with the implementation and calls none of its functions.
use super::oracle;
use super::sup::*;
use precis_core::profile::{PrecisFastInvocation, Profile, Rules};
use precis_core::{CodepointInfo, DerivedPropertyValue, Error, FreeformClass, StringClass, UnexpectedError};
use super::precis_profiles::{Nickname, OpaqueString};
use std::borrow::Cow;

pub type Res<'a> = Result<Cow<'a, str>, Error>;

/// a string as a character array (first n entries)
#[derive(Clone, Copy)]
pub struct Arr<const M: usize> {
    pub c: [char; M],
    pub n: usize,
}

pub type Spec<const M: usize> = Result<Arr<M>, Error>;

impl<const M: usize> Arr<M> {
    pub fn from_sym<const N: usize>(x: &SymStr<N>) -> Self {
        let mut c = ['\0'; M];
        let mut i = 0;
        while i < N {
            if i < x.n {
                c[i] = x.cs[i];
            }
            i += 1;
        }
        Arr { c, n: x.n }
    }
    pub fn eq(&self, o: &Arr<M>) -> bool {
        let mut same = self.n == o.n;
        let mut i = 0;
        while i < M {
            if i < self.n && i < o.n && self.c[i] != o.c[i] {
                same = false;
            }
            i += 1;
        }
        same
    }
    pub fn fill<const B: usize>(&self, buf: &mut SBuf<B>) {
        let mut i = 0;
        while i < M {
            if i < self.n {
                buf.push(self.c[i]);
            }
            i += 1;
        }
    }
}

/// result of the implementation == specification (strings compared character by character)
pub fn same<const M: usize>(got: &Res, exp: &Spec<M>) -> bool {
    match (got, exp) {
        (Ok(g), Ok(e)) => {
            let mut ga = ['\0'; M];
            let k = decode(g, &mut ga);
            k <= M && (Arr::<M> { c: ga, n: k }).eq(e)
        }
        (Err(g), Err(e)) => g == e,
        _ => false,
    }
}

pub fn dpv_of(v: u8) -> DerivedPropertyValue {
    super::c14::dpv_of(v)
}

/// StringClass::allows over the alphabet: first offending character (the only contextual one, U+0660, is always allowed)
pub fn spec_allows<const M: usize>(a: &Arr<M>, ident: bool) -> Result<(), Error> {
    let mut i = 0;
    while i < M {
        if i < a.n {
            let v = oracle::sig_dpv(a.c[i] as u32);
            let v = if ident { v / 8 } else { v % 8 };
            if v == 2 || v == 5 || v == 6 {
                return Err(Error::BadCodepoint(CodepointInfo::new(a.c[i] as u32, i, dpv_of(v))));
            }
        }
        i += 1;
    }
    Ok(())
}

/// every non-ASCII Zs -> U+0020
pub fn spec_space_opaque<const M: usize>(a: &Arr<M>) -> Arr<M> {
    let mut r = *a;
    let mut i = 0;
    while i < M {
        if i < a.n && oracle::sig_is_zs(a.c[i] as u32) == 1 {
            r.c[i] = ' ';
        }
        i += 1;
    }
    r
}

/// Zs -> U+0020, trim, collapse
pub fn spec_space_nick<const M: usize>(a: &Arr<M>) -> Arr<M> {
    let mut r = Arr::<M> { c: ['\0'; M], n: 0 };
    let mut pending = false;
    let mut i = 0;
    while i < M {
        if i < a.n {
            if oracle::sig_is_zs(a.c[i] as u32) == 1 {
                if r.n > 0 {
                    pending = true;
                }
            } else {
                if pending {
                    r.c[r.n] = ' ';
                    r.n += 1;
                    pending = false;
                }
                r.c[r.n] = a.c[i];
                r.n += 1;
            }
        }
        i += 1;
    }
    r
}

/// per-character lowercase (every character of the alphabet has a single-character mapping; checked)
pub fn spec_lower<const M: usize>(a: &Arr<M>) -> Option<Arr<M>> {
    let mut r = *a;
    let mut i = 0;
    while i < M {
        if i < a.n {
            match oracle::sig_to_lower(a.c[i]) {
                Some(l) => {
                    if l[1] != '\0' {
                        return None;
                    }
                    r.c[i] = l[0];
                }
                None => return None,
            }
        }
        i += 1;
    }
    Some(r)
}

pub fn spec_norm<const M: usize>(a: &Arr<M>, compat: bool) -> Option<Arr<M>> {
    let mut out = ['\0'; M];
    let n = super::norm_model::normalize_arr::<M>(&a.c, a.n, compat, &mut out)?;
    Some(Arr { c: out, n })
}

fn freeform_prepare<const M: usize>(a: &Arr<M>) -> Spec<M> {
    if a.n == 0 {
        return Err(Error::Invalid);
    }
    spec_allows(a, false)?;
    Ok(*a)
}

// ------------------------------------------------------------------------------------------ C05 OpaqueString
pub fn opaque<const N: usize, const B: usize, const M: usize, const ENFORCE: bool, S: Src>(s: &mut S) {
    let x = SymStr::<N>::from_alphabet(s, &oracle::SIGMA_PIPE);
    let mut buf = SBuf::<B>::new();
    x.fill(&mut buf);
    let input = buf.as_str();
    pv_note!(s, "OpaqueString prepare/enforce({:?})", input);
    let a = Arr::<M>::from_sym(&x);
    let p = OpaqueString::new();
    let exp_prep = freeform_prepare(&a);
    let do_enforce = ENFORCE;
    if !do_enforce {
        let got_prep = p.prepare(input);
        pv_check!(s, same::<M>(&got_prep, &exp_prep), "PV: OpaqueString.prepare = non-empty and accepted by FreeformClass, string unchanged");
        pv_cover!(s, x.n == N && got_prep.is_ok(), "COVER(prepare): prepared");
        pv_cover!(s, x.n == N && matches!(exp_prep, Err(Error::BadCodepoint(_))), "COVER(prepare): rejected by FreeformClass");
        std::mem::forget(got_prep);
    } else {
        let got_enf = p.enforce(input);
        let exp_enf: Spec<M> = match exp_prep {
            Err(ref e) => Err(clone_err(e)),
            Ok(ref a1) => match spec_norm(&spec_space_opaque(a1), false) {
                None => {
                    pv_check!(s, false, "MODEL: normalizer model capacity");
                    Err(Error::Invalid)
                }
                Some(r) => {
                    if r.n == 0 {
                        Err(Error::Invalid)
                    } else {
                        Ok(r)
                    }
                }
            },
        };
        pv_cover!(s, x.n == N && matches!(exp_enf, Ok(ref e) if !e.eq(&a)), "COVER(enforce): enforce changes the string (space mapping or NFC)");
        pv_check!(s, same::<M>(&got_enf, &exp_enf), "PV: OpaqueString.enforce = prepare, then non-ASCII space mapping, then NFC, then non-empty check");
        std::mem::forget(got_enf);
    }
}

/// Error is not Clone: rebuild an equal value
pub fn clone_err(e: &Error) -> Error {
    use precis_core::CodepointInfo as CI;
    match e {
        Error::Invalid => Error::Invalid,
        Error::BadCodepoint(i) => Error::BadCodepoint(CI::new(i.cp, i.position, i.property)),
        Error::Unexpected(UnexpectedError::ContextRuleNotApplicable(i)) => {
            Error::Unexpected(UnexpectedError::ContextRuleNotApplicable(CI::new(i.cp, i.position, i.property)))
        }
        Error::Unexpected(UnexpectedError::MissingContextRule(i)) => {
            Error::Unexpected(UnexpectedError::MissingContextRule(CI::new(i.cp, i.position, i.property)))
        }
        Error::Unexpected(UnexpectedError::ProfileRuleNotApplicable) => Error::Unexpected(UnexpectedError::ProfileRuleNotApplicable),
        Error::Unexpected(UnexpectedError::Undefined) => Error::Unexpected(UnexpectedError::Undefined),
    }
}

// ------------------------------------------------------------------------------------------ C06 Nickname
/// one application of the nickname rules (enforcement rules, or comparison rules = + lowercase, no empty check)
fn nick_round<const M: usize>(a: &Arr<M>, compare_rules: bool) -> Option<Spec<M>> {
    let a1 = match freeform_prepare(a) {
        Err(e) => return Some(Err(e)),
        Ok(x) => x,
    };
    let a2 = spec_space_nick(&a1);
    let a2 = if compare_rules { spec_lower(&a2)? } else { a2 };
    let a3 = spec_norm(&a2, true)?;
    if !compare_rules && a3.n == 0 {
        return Some(Err(Error::Invalid));
    }
    Some(Ok(a3))
}

/// the statement's loop: first application plus three re-applications, the first unchanged result wins
pub fn nick_fixpoint<const M: usize>(a: &Arr<M>, compare_rules: bool) -> Option<Spec<M>> {
    let mut cur = *a;
    let mut i = 0;
    while i < 4 {
        match nick_round(&cur, compare_rules)? {
            Err(e) => return Some(Err(e)),
            Ok(t) => {
                if t.eq(&cur) {
                    return Some(Ok(t));
                }
                cur = t;
            }
        }
        i += 1;
    }
    Some(Err(Error::Invalid))
}

pub fn nickname<const N: usize, const B: usize, const M: usize, const ENFORCE: bool, S: Src>(s: &mut S) {
    let x = SymStr::<N>::from_alphabet(s, &oracle::SIGMA_PIPE);
    let mut buf = SBuf::<B>::new();
    x.fill(&mut buf);
    let input = buf.as_str();
    pv_note!(s, "Nickname prepare/enforce({:?})", input);
    let a = Arr::<M>::from_sym(&x);
    let p = Nickname::new();
    let do_enforce = ENFORCE;
    if !do_enforce {
        let got_prep = p.prepare(input);
        let exp_prep = freeform_prepare(&a);
        pv_check!(s, same::<M>(&got_prep, &exp_prep), "PV: Nickname.prepare = non-empty and accepted by FreeformClass, string unchanged");
        pv_cover!(s, x.n == N && got_prep.is_ok(), "COVER(prepare): prepared");
        std::mem::forget(got_prep);
    } else {
        let got = p.enforce(input);
        match nick_fixpoint(&a, false) {
            None => {
                pv_check!(s, false, "MODEL: normalizer model capacity");
            }
            Some(exp) => {
                pv_cover!(s, x.n == N && matches!(exp, Ok(ref e) if e.n < a.n), "COVER(enforce): enforce shortens the string");
                pv_cover!(s, x.n == N && matches!(exp, Ok(ref e) if e.n > a.n), "COVER(enforce): enforce lengthens the string (NFKC expansion)");
                pv_cover!(s, x.n == N && matches!(exp, Err(Error::Invalid)), "COVER(enforce): rejected as empty or unstable");
                pv_check!(s, same::<M>(&got, &exp), "PV: Nickname.enforce = the RFC 8266 rules re-applied until stable (first + three re-applications)");
                if let Ok(ref e) = exp {
                    // every accepted result is a fixed point of the nickname rules
                    let again = nick_round(e, false);
                    pv_check!(s, matches!(again, Some(Ok(ref t)) if t.eq(e)), "PV: every accepted Nickname result is a fixed point of the rules");
                }
            }
        }
        std::mem::forget(got);
    }
}

/// Quick variant with S-STAB2 (stabilize = apply twice): Nickname::enforce / compare must equal two applications of the
/// statement's one-round function (enforcement rules, or comparison rules when CMP).
pub fn nickname_two_rounds<const N: usize, const B: usize, const M: usize, const CMP: bool, S: Src>(s: &mut S) {
    let x = SymStr::<N>::from_alphabet(s, &oracle::SIGMA_PIPE);
    let mut buf = SBuf::<B>::new();
    x.fill(&mut buf);
    let input = buf.as_str();
    pv_note!(s, "Nickname two applications of the {} rules on {:?}", if CMP { "comparison" } else { "enforcement" }, input);
    let a = Arr::<M>::from_sym(&x);
    let exp: Option<Spec<M>> = match nick_round(&a, CMP) {
        None => None,
        Some(Err(e)) => Some(Err(e)),
        Some(Ok(t)) => nick_round(&t, CMP),
    };
    let p = Nickname::new();
    match exp {
        None => {
            pv_check!(s, false, "MODEL: normalizer model capacity");
        }
        Some(exp) => {
            pv_cover!(s, x.n == N && matches!(exp, Err(Error::BadCodepoint(ref i)) if i.cp != x.cs[0] as u32), "COVER: the second application rejects a code point the first one produced");
            pv_cover!(s, x.n == N && matches!(exp, Ok(ref e) if !e.eq(&a)), "COVER: two applications change the string");
            if !CMP {
                let got = p.enforce(input);
                pv_check!(s, same::<M>(&got, &exp), "PV: each application of the Nickname enforcement rules = validate, space rule, NFKC, non-empty (two applications)");
                std::mem::forget(got);
            } else {
                // compare(x, "a") under S-STAB2: two applications of the comparison rules on x, against the (concrete,
                // constant-folded) result for "a", which is "a"
                let got = p.compare(input, "a");
                let e: Result<bool, Error> = match exp {
                    Ok(t) => Ok(t.n == 1 && t.c[0] == 'a'),
                    Err(e) => Err(e),
                };
                pv_cover!(s, e == Ok(true) && x.cs[0] != 'a', "COVER(cmp): another spelling of a");
                pv_check!(s, got == e, "PV: each application of the Nickname comparison rules = validate, space rule, lowercase, NFKC (two applications)");
            }
        }
    }
}

/// a second round is really needed for some inputs (witness that re-application matters)
pub fn nickname_rounds<S: Src>(s: &mut S) {
    // U+00B4 ACUTE ACCENT: NFKC gives U+0020 U+0301, so the first round produces an interior space, and
    // "\u{b4}a" produces a LEADING space that only the second round removes
    let p = Nickname::new();
    let a = Arr::<8> { c: ['\u{b4}', 'a', '\0', '\0', '\0', '\0', '\0', '\0'], n: 2 };
    let r1 = nick_round(&a, false);
    pv_cover!(s, matches!(r1, Some(Ok(ref t)) if !t.eq(&a)), "COVER: the first round changes the string");
    let got = p.enforce("\u{b4}a");
    match nick_fixpoint(&a, false) {
        Some(exp) => {
            pv_check!(s, same::<8>(&got, &exp), "PV: Nickname.enforce on an input whose NFKC form introduces a leading space");
            pv_cover!(s, matches!(exp, Ok(ref e) if e.n == 2 && e.c[0] == '\u{301}'), "COVER: stable after the second round");
        }
        None => {
            pv_check!(s, false, "MODEL: normalizer model capacity");
        }
    }
    std::mem::forget(got);
}

// ------------------------------------------------------------------------------------------ C07 compare (Freeform profiles)
fn cmp_spec<const M: usize>(ea: Spec<M>, eb: Spec<M>) -> Result<bool, Error> {
    match (ea, eb) {
        (Err(e), _) => Err(e),
        (Ok(_), Err(e)) => Err(e),
        (Ok(a), Ok(b)) => Ok(a.eq(&b)),
    }
}

fn opaque_enforce_spec<const M: usize>(a: &Arr<M>) -> Option<Spec<M>> {
    let a1 = match freeform_prepare(a) {
        Err(e) => return Some(Err(e)),
        Ok(x) => x,
    };
    let r = spec_norm(&spec_space_opaque(&a1), false)?;
    if r.n == 0 {
        Some(Err(Error::Invalid))
    } else {
        Some(Ok(r))
    }
}

pub fn compare_opaque<const N: usize, const B: usize, const M: usize, S: Src>(s: &mut S) {
    let xa = SymStr::<N>::from_alphabet(s, &oracle::SIGMA_PIPE);
    let xb = SymStr::<N>::from_alphabet(s, &oracle::SIGMA_PIPE);
    let mut ba = SBuf::<B>::new();
    let mut bb = SBuf::<B>::new();
    xa.fill(&mut ba);
    xb.fill(&mut bb);
    pv_note!(s, "OpaqueString::compare({:?}, {:?})", ba.as_str(), bb.as_str());
    let got = OpaqueString::new().compare(ba.as_str(), bb.as_str());
    let (ea, eb) = (opaque_enforce_spec(&Arr::<M>::from_sym(&xa)), opaque_enforce_spec(&Arr::<M>::from_sym(&xb)));
    if let (Some(ea), Some(eb)) = (ea, eb) {
        let exp = cmp_spec(ea, eb);
        pv_cover!(s, exp == Ok(true) && ba.len != bb.len, "COVER: equal canonical forms of different inputs");
        pv_cover!(s, exp == Ok(false), "COVER: accepted, different");
        pv_cover!(s, exp.is_err() && xa.n > 0 && xb.n > 0, "COVER: one side rejected by the class");
        pv_check!(s, got == exp, "PV: OpaqueString.compare(a, b) = (enforce(a)? == enforce(b)?), first operand's error first");
    } else {
        pv_check!(s, false, "MODEL: normalizer model capacity");
    }
}

pub fn compare_nickname<const N: usize, const B: usize, const M: usize, S: Src>(s: &mut S) {
    let xa = SymStr::<N>::from_alphabet(s, &oracle::SIGMA_PIPE);
    let xb = SymStr::<N>::from_alphabet(s, &oracle::SIGMA_PIPE);
    let mut ba = SBuf::<B>::new();
    let mut bb = SBuf::<B>::new();
    xa.fill(&mut ba);
    xb.fill(&mut bb);
    pv_note!(s, "Nickname::compare({:?}, {:?})", ba.as_str(), bb.as_str());
    let got = Nickname::new().compare(ba.as_str(), bb.as_str());
    let (ea, eb) = (nick_fixpoint(&Arr::<M>::from_sym(&xa), true), nick_fixpoint(&Arr::<M>::from_sym(&xb), true));
    if let (Some(ea), Some(eb)) = (ea, eb) {
        let exp = cmp_spec(ea, eb);
        pv_cover!(s, exp == Ok(true) && ba.len != bb.len, "COVER: equal comparison forms of different inputs");
        pv_cover!(s, exp == Ok(false), "COVER: accepted, different");
        pv_check!(s, got == exp, "PV: Nickname.compare = equality of (rules + lowercase mapping iterated to stability), first operand's error first");
    } else {
        pv_check!(s, false, "MODEL: normalizer model capacity");
    }
}

/// specification result as a real Result<Cow<str>, Error> (used by the S-ENF stubs)
pub fn spec_to_res<'a, const M: usize>(r: Option<Spec<M>>) -> Res<'a> {
    match r {
        None => {
            assert!(false, "MODEL: normalizer model capacity");
            Err(Error::Invalid)
        }
        Some(Err(e)) => Err(e),
        Some(Ok(a)) => {
            let mut out = String::new();
            let mut i = 0;
            while i < M {
                if i < a.n {
                    out.push(a.c[i]);
                }
                i += 1;
            }
            Ok(Cow::Owned(out))
        }
    }
}

pub fn arr_of_str<const M: usize>(s: &str) -> Arr<M> {
    let mut c = ['\0'; M];
    let n = decode(s, &mut c);
    assert!(n <= M, "MODEL: string longer than the stub capacity");
    Arr { c, n }
}

/// the constant operands of the compare harnesses: "" (rejected: Invalid), "a" (accepted), U+1100 (rejected by
/// FreeformClass: BadCodepoint) / U+0020 (rejected by IdentifierClass)
pub const CMP_CONSTS_FREE: [&str; 3] = ["", "a", "\u{1100}"];
pub const CMP_CONSTS_ID: [&str; 3] = ["", "a", " "];

/// compare() of the Freeform profiles with ONE symbolic operand and one constant operand (K selects the constant,
/// CONST_FIRST its side): the constant side is folded by the solver, so the formula is one pipeline, not two.
/// Nickname runs with S-STAB2 (two applications of the comparison rules per side).
pub fn compare_const_freeform<const N: usize, const B: usize, const M: usize, const NICK: bool, const K: usize, const CONST_FIRST: bool, S: Src>(s: &mut S) {
    let x = SymStr::<N>::from_alphabet(s, &oracle::SIGMA_PIPE);
    let mut buf = SBuf::<B>::new();
    x.fill(&mut buf);
    let input = buf.as_str();
    let k = CMP_CONSTS_FREE[K];
    pv_note!(s, "{}::compare: symbolic {:?}, constant {:?} (constant first: {})", if NICK { "Nickname" } else { "OpaqueString" }, input, k, CONST_FIRST);
    let got = match (NICK, CONST_FIRST) {
        (false, false) => OpaqueString::new().compare(input, k),
        (false, true) => OpaqueString::new().compare(k, input),
        (true, false) => Nickname::new().compare(input, k),
        (true, true) => Nickname::new().compare(k, input),
    };
    let canon = |a: &Arr<M>| -> Option<Spec<M>> {
        if NICK {
            // two applications of the comparison rules (S-STAB2)
            match nick_round(a, true)? {
                Err(e) => Some(Err(e)),
                Ok(t) => nick_round(&t, true),
            }
        } else {
            opaque_enforce_spec(a)
        }
    };
    let ka = {
        let mut c = ['\0'; M];
        let mut n = 0;
        for ch in k.chars() {
            c[n] = ch;
            n += 1;
        }
        Arr::<M> { c, n }
    };
    let (ex, ek) = (canon(&Arr::<M>::from_sym(&x)), canon(&ka));
    if let (Some(ex), Some(ek)) = (ex, ek) {
        let exp = if CONST_FIRST { cmp_spec(ek, ex) } else { cmp_spec(ex, ek) };
        pv_cover!(s, exp == Ok(true), "COVER(k1): equal canonical forms");
        pv_cover!(s, exp == Ok(false), "COVER(k1): accepted, different");
        pv_cover!(s, matches!(exp, Err(Error::BadCodepoint(_))) && x.n > 0, "COVER: a class error is reported");
        pv_check!(s, got == exp, "PV: compare(a, b) = (canonical(a)? == canonical(b)?), first operand's error first (Freeform profiles)");
    } else {
        pv_check!(s, false, "MODEL: normalizer model capacity");
    }
}

// ------------------------------------------------------------------------------------------ C08 no drift (Freeform profiles)
/// No drift: for every string y of at most N characters, take the canonical form e that the specification assigns to
/// enforce(y) (C05/C06 decide that the real enforce returns exactly that), run the REAL enforce on e once, and require
/// Ok(e) or an error; also no code point of e is DISALLOWED/UNASSIGNED in FreeformClass.
pub fn no_drift_freeform<const N: usize, const B: usize, const M: usize, const NICK: bool, S: Src>(s: &mut S) {
    let y = SymStr::<N>::from_alphabet(s, &oracle::SIGMA_PIPE);
    let ya = Arr::<M>::from_sym(&y);
    let e = if NICK { nick_fixpoint(&ya, false) } else { opaque_enforce_spec(&ya) };
    match e {
        None => {
            pv_check!(s, false, "MODEL: normalizer model capacity");
        }
        Some(Err(_)) => {}
        Some(Ok(e)) => {
            let mut buf = SBuf::<B>::new();
            e.fill(&mut buf);
            pv_note!(s, "{}: enforce of the canonical form {:?}", if NICK { "Nickname" } else { "OpaqueString" }, buf.as_str());
            pv_cover!(s, !e.eq(&ya), "COVER: a canonical form that differs from its input");
            let again = if NICK { Nickname::new().enforce(buf.as_str()) } else { OpaqueString::new().enforce(buf.as_str()) };
            let ok = match again {
                Ok(ref f) => {
                    let mut fa = ['\0'; M];
                    let kf = decode(f, &mut fa);
                    (Arr::<M> { c: fa, n: kf }).eq(&e)
                }
                Err(_) => true,
            };
            pv_check!(s, ok, "PV: enforcing an enforced string never yields a different string (it returns it or an error)");
            let mut bad = false;
            let mut i = 0;
            while i < M {
                if i < e.n {
                    let v = FreeformClass::default().get_value_from_char(e.c[i]);
                    if v == DerivedPropertyValue::Disallowed || v == DerivedPropertyValue::Unassigned {
                        bad = true;
                    }
                }
                i += 1;
            }
            pv_check!(s, !bad, "PV: no code point of an enforced string is DISALLOWED or UNASSIGNED in FreeformClass");
            std::mem::forget(again);
        }
    }
}

// ------------------------------------------------------------------------------------------ C16 API forms (Freeform profiles)
/// One API form of one operation against the specification (a fresh instance on &str equals the specification by
/// C05/C06/C07, so every form equals every other).  FORM: 0 static prepare, 1 static enforce, 2 static compare(x, "a"),
/// 3 enforce(String), 4 enforce(Cow), 5 enforce on an instance that has already served another (symbolic) call.
/// Nickname runs with S-STAB2, so "enforce" = two applications of the rules.
pub fn api_form_freeform<const N: usize, const B: usize, const M: usize, const NICK: bool, const FORM: usize, S: Src>(s: &mut S) {
    let x = SymStr::<N>::from_alphabet(s, &oracle::SIGMA_PIPE);
    let mut buf = SBuf::<B>::new();
    x.fill(&mut buf);
    let input = buf.as_str();
    pv_note!(s, "{} API form {} on {:?}", if NICK { "Nickname" } else { "OpaqueString" }, FORM, input);
    let a = Arr::<M>::from_sym(&x);
    let enf = |a: &Arr<M>, cmp: bool| -> Option<Spec<M>> {
        if NICK {
            match nick_round(a, cmp)? {
                Err(e) => Some(Err(e)),
                Ok(t) => nick_round(&t, cmp),
            }
        } else {
            opaque_enforce_spec(a)
        }
    };
    if FORM == 2 {
        let got = if NICK { <Nickname as PrecisFastInvocation>::compare(input, "a") } else { <OpaqueString as PrecisFastInvocation>::compare(input, "a") };
        let ka = Arr::<M> { c: { let mut c = ['\0'; M]; c[0] = 'a'; c }, n: 1 };
        if let (Some(ex), Some(ek)) = (enf(&a, true), enf(&ka, true)) {
            let exp = cmp_spec(ex, ek);
            pv_cover!(s, exp == Ok(true), "COVER(f2): equal");
            pv_check!(s, got == exp, "PV: static compare = the specification's compare");
        } else {
            pv_check!(s, false, "MODEL: normalizer model capacity");
        }
        return;
    }
    let exp: Option<Spec<M>> = if FORM == 0 { Some(freeform_prepare(&a)) } else { enf(&a, false) };
    let got: Res = match FORM {
        0 => {
            if NICK { <Nickname as PrecisFastInvocation>::prepare(input) } else { <OpaqueString as PrecisFastInvocation>::prepare(input) }
        }
        1 => {
            if NICK { <Nickname as PrecisFastInvocation>::enforce(input) } else { <OpaqueString as PrecisFastInvocation>::enforce(input) }
        }
        3 => {
            if NICK { Nickname::new().enforce(String::from(input)) } else { OpaqueString::new().enforce(String::from(input)) }
        }
        4 => {
            if NICK { Nickname::new().enforce(Cow::Borrowed(input)) } else { OpaqueString::new().enforce(Cow::Borrowed(input)) }
        }
        _ => {
            // a long-lived instance after a call on a constant (folded) string
            if NICK {
                let inst = Nickname::new();
                let first = inst.enforce("A\u{ff21}");
                std::mem::forget(first);
                inst.enforce(input)
            } else {
                let inst = OpaqueString::new();
                let first = inst.enforce("A\u{3000}");
                std::mem::forget(first);
                inst.enforce(input)
            }
        }
    };
    match exp {
        None => {
            pv_check!(s, false, "MODEL: normalizer model capacity");
        }
        Some(exp) => {
            pv_cover!(s, x.n == N && matches!(exp, Ok(ref e) if !e.eq(&a)), "COVER(chg): a result that differs from the input");
            pv_cover!(s, x.n == N && exp.is_ok(), "COVER: accepted");
            pv_check!(s, same::<M>(&got, &exp), "PV: every API form (static singleton, String, Cow, reused instance) gives the specified result");
        }
    }
    std::mem::forget(got);
}

// ------------------------------------------------------------------------------------------ rule binding
pub fn str_eq<const M: usize>(x: &str, y: &str) -> bool {
    let mut xa = ['\0'; M];
    let mut ya = ['\0'; M];
    let kx = decode(x, &mut xa);
    let ky = decode(y, &mut ya);
    kx == ky && kx <= M && eq_chars(&xa, &ya)
}

pub fn binding_freeform<S: Src>(s: &mut S) {
    let na = Err(Error::Unexpected(UnexpectedError::ProfileRuleNotApplicable));
    let fw = "\u{ff21}"; // FULLWIDTH LATIN CAPITAL LETTER A: NFC keeps it, NFKC gives 'A'
    let o = OpaqueString::new();
    let n = Nickname::new();
    pv_check!(s, matches!(o.normalization_rule(fw), Ok(ref r) if str_eq::<2>(r, fw)), "PV: OpaqueString normalization is NFC (compatibility characters survive)");
    pv_check!(s, matches!(n.normalization_rule(fw), Ok(ref r) if str_eq::<2>(r, "A")), "PV: Nickname normalization is NFKC");
    pv_check!(s, o.case_mapping_rule("A") == na, "PV: OpaqueString has no case mapping rule");
    pv_check!(s, o.width_mapping_rule(fw) == na, "PV: OpaqueString has no width mapping rule");
    pv_check!(s, n.width_mapping_rule(fw) == na, "PV: Nickname has no width mapping rule");
    pv_check!(s, o.directionality_rule("a") == na && n.directionality_rule("a") == na, "PV: the Freeform profiles have no directionality rule");
    pv_check!(s, matches!(n.case_mapping_rule("A"), Ok(ref r) if str_eq::<2>(r, "a")), "PV: Nickname case mapping lowercases");
    pv_cover!(s, true, "COVER: reached");
}

/// Constant multi-character witnesses for the Freeform profiles (interactions one symbolic character cannot show):
/// space collapsing/trimming around multi-byte characters, NFC/NFKC after space mapping, compatibility characters that
/// must survive (OpaqueString) or be folded (Nickname), re-validation in a later round.  Real stabilize loop (constants).
pub fn freeform_witnesses<const NICK: bool, const K: usize, S: Src>(s: &mut S) {
    const WN: [&str; 6] = [
        "a\u{3000}\u{a0}e",   // two different non-ASCII spaces collapse to one
        " e\u{301}",          // leading space, then composition
        "\u{b4}a",            // NFKC gives a leading space: second round
        "\u{3131}a",          // NFKC gives a DISALLOWED jamo: second round must reject
        "A\u{ff21}",          // compatibility character folded by NFKC
        "\u{2163}\u{a0}",     // expansion to two letters, trailing space
    ];
    const WO: [&str; 6] = [
        "a\u{3000}\u{a0}e",   // both mapped to U+0020, nothing collapsed
        " e\u{301}",          // space kept, composition
        "\u{b4}a",            // compatibility character survives
        "\u{2126}\u{a0}",     // singleton + space mapping
        "A\u{ff21}",          // fullwidth survives
        "\u{1100}a",          // DISALLOWED: rejected with its position
    ];
    let input = if NICK { WN[K] } else { WO[K] };
    pv_note!(s, "{} witness {:?}", if NICK { "Nickname" } else { "OpaqueString" }, input);
    let a = arr_of_str::<8>(input);
    let (got, exp) = if NICK {
        (Nickname::new().enforce(input), nick_fixpoint(&a, false))
    } else {
        (OpaqueString::new().enforce(input), opaque_enforce_spec(&a))
    };
    match exp {
        Some(exp) => {
            pv_check!(s, same::<8>(&got, &exp), "PV: enforce on a multi-character witness = the specification (Freeform profiles)");
        }
        None => {
            pv_check!(s, false, "MODEL: normalizer model capacity");
        }
    }
    std::mem::forget(got);
    pv_cover!(s, true, "COVER: reached");
}
