// C03 — Context rules decide exactly what RFC 5892 Appendix A prescribes.
// Layer A (`nb_*`): the table predicates are observed through the rules themselves, on strings with ONE symbolic
//   character X (every scalar value) and concrete companions, real generated 6.3.0 context tables.
// Layer B (`rule_*`): every rule on strings of up to N fully symbolic characters and ANY usize offset, with the
//   table predicates replaced by the oracle functions (S-CTX; discharged by Layer A).
// Oracle: Scripts.txt / DerivedJoiningType.txt / ccc=9 of UnicodeData.txt 6.3.0, RFC 5892 Appendix A conditions
//   written directly over the character array.
use super::oracle::{self, *};
use super::sup::*;
use precis_core::context::*;

fn has(cp: char, bit: u16) -> bool {
    oracle::ctx_mask(cp as u32) & bit != 0
}

type R = Result<bool, ContextRuleError>;

// ------------------------------------------------------------------ Layer A
/// X before ZWJ: virama(X)
pub fn nb_zwj<S: Src>(s: &mut S) {
    let x = s.ch();
    let mut b = SBuf::<8>::new();
    b.push(x);
    b.push('\u{200d}');
    pv_note!(s, "rule_zero_width_joiner({:?}, 1)", b.as_str());
    let r = rule_zero_width_joiner(b.as_str(), 1);
    pv_cover!(s, has(x, CTX_VIRAMA), "COVER: a virama");
    pv_check!(s, r == Ok(has(x, CTX_VIRAMA)), "PV: ZWJ allowed iff the preceding character has ccc=Virama (6.3.0), every code point");
}

/// X before ZWNJ, a dual-joining character after it
pub fn nb_zwnj_before<S: Src>(s: &mut S) {
    let x = s.ch();
    let mut b = SBuf::<12>::new();
    b.push(x);
    b.push('\u{200c}');
    b.push('\u{0628}'); // ARABIC LETTER BEH, Joining_Type=D
    pv_note!(s, "rule_zero_width_nonjoiner({:?}, 1)", b.as_str());
    let r = rule_zero_width_nonjoiner(b.as_str(), 1);
    let exp: R = if has(x, CTX_VIRAMA) {
        Ok(true)
    } else if has(x, CTX_JT_T) {
        Err(ContextRuleError::Undefined)
    } else {
        Ok(has(x, CTX_JT_L) || has(x, CTX_JT_D))
    };
    pv_cover!(s, has(x, CTX_JT_L), "COVER: a left-joining character");
    pv_cover!(s, has(x, CTX_JT_T) && !has(x, CTX_VIRAMA), "COVER: a transparent non-virama");
    pv_check!(s, r == exp, "PV: ZWNJ, character before: virama / Joining_Type T / {L,D} as in 6.3.0, every code point");
}

/// X after ZWNJ, a dual-joining character before it
pub fn nb_zwnj_after<S: Src>(s: &mut S) {
    let x = s.ch();
    let mut b = SBuf::<12>::new();
    b.push('\u{0628}');
    b.push('\u{200c}');
    b.push(x);
    pv_note!(s, "rule_zero_width_nonjoiner({:?}, 1)", b.as_str());
    let r = rule_zero_width_nonjoiner(b.as_str(), 1);
    let exp: R = if has(x, CTX_JT_T) {
        Err(ContextRuleError::Undefined)
    } else {
        Ok(has(x, CTX_JT_R) || has(x, CTX_JT_D))
    };
    pv_cover!(s, has(x, CTX_JT_R), "COVER: a right-joining character");
    pv_check!(s, r == exp, "PV: ZWNJ, character after: Joining_Type T / {R,D} as in 6.3.0, every code point");
}

/// X after KERAIA: Greek(X)
pub fn nb_keraia<S: Src>(s: &mut S) {
    let x = s.ch();
    let mut b = SBuf::<8>::new();
    b.push('\u{0375}');
    b.push(x);
    pv_note!(s, "rule_greek_lower_numeral_sign_keraia({:?}, 0)", b.as_str());
    let r = rule_greek_lower_numeral_sign_keraia(b.as_str(), 0);
    pv_cover!(s, has(x, CTX_GREEK) && (x as u32) > 0x10000, "COVER: a supplementary Greek character");
    pv_check!(s, r == Ok(has(x, CTX_GREEK)), "PV: KERAIA allowed iff the following character is Script=Greek (6.3.0), every code point");
}

/// X before GERESH / GERSHAYIM: Hebrew(X)
pub fn nb_hebrew<S: Src>(s: &mut S) {
    let x = s.ch();
    let g = if s.bool() { '\u{05f3}' } else { '\u{05f4}' };
    let mut b = SBuf::<8>::new();
    b.push(x);
    b.push(g);
    pv_note!(s, "rule_hebrew_punctuation({:?}, 1)", b.as_str());
    let r = rule_hebrew_punctuation(b.as_str(), 1);
    pv_cover!(s, has(x, CTX_HEBREW), "COVER: a Hebrew character");
    pv_check!(s, r == Ok(has(x, CTX_HEBREW)), "PV: GERESH/GERSHAYIM allowed iff the preceding character is Script=Hebrew (6.3.0), every code point");
}

/// X after KATAKANA MIDDLE DOT: Hiragana|Katakana|Han (X)
pub fn nb_katakana<S: Src>(s: &mut S) {
    let x = s.ch();
    let mut b = SBuf::<8>::new();
    b.push('\u{30fb}');
    b.push(x);
    pv_note!(s, "rule_katakana_middle_dot({:?}, 0)", b.as_str());
    let r = rule_katakana_middle_dot(b.as_str(), 0);
    let e = has(x, CTX_HIRAGANA) || has(x, CTX_KATAKANA) || has(x, CTX_HAN);
    pv_cover!(s, has(x, CTX_HAN) && (x as u32) > 0x20000, "COVER: a supplementary Han character");
    pv_cover!(s, has(x, CTX_HIRAGANA), "COVER: a Hiragana character");
    pv_check!(s, r == Ok(e), "PV: KATAKANA MIDDLE DOT allowed iff some character is Hiragana, Katakana or Han (6.3.0), every code point");
}

// ------------------------------------------------------------------ Layer B
struct Lbl<const N: usize> {
    x: SymStr<N>,
    pos: usize,
}

fn label<const N: usize, const B: usize, S: Src>(s: &mut S, buf: &mut SBuf<B>) -> Lbl<N> {
    let x = SymStr::<N>::any(s);
    x.fill(buf);
    let pos = s.usize();
    Lbl { x, pos }
}

/// common prologue: Undefined iff the position is outside the label, NotApplicable iff the code point there is
/// not the rule's own.  Returns Some(expected) if decided.
fn prologue<const N: usize>(l: &Lbl<N>, own: impl Fn(u32) -> bool) -> Option<R> {
    if l.pos >= l.x.n {
        return Some(Err(ContextRuleError::Undefined));
    }
    if !own(l.x.cs[l.pos] as u32) {
        return Some(Err(ContextRuleError::NotApplicable));
    }
    None
}

pub fn rule_zwj<const N: usize, const B: usize, S: Src>(s: &mut S) {
    let mut buf = SBuf::<B>::new();
    let l = label::<N, B, S>(s, &mut buf);
    pv_note!(s, "rule_zero_width_joiner({:?}, {})", buf.as_str(), l.pos);
    let r = rule_zero_width_joiner(buf.as_str(), l.pos);
    let exp = match prologue(&l, |c| c == 0x200d) {
        Some(e) => e,
        None => {
            if l.pos == 0 {
                Err(ContextRuleError::Undefined)
            } else {
                Ok(has(l.x.cs[l.pos - 1], CTX_VIRAMA))
            }
        }
    };
    pv_cover!(s, exp == Ok(true) && l.pos == N - 1, "COVER: ZWJ allowed at the last position");
    pv_cover!(s, l.pos == usize::MAX, "COVER: offset usize::MAX");
    pv_check!(s, r == exp, "PV: rule_zero_width_joiner = RFC 5892 A.2 at every position");
}

pub fn rule_middle_dot_b<const N: usize, const B: usize, S: Src>(s: &mut S) {
    let mut buf = SBuf::<B>::new();
    let l = label::<N, B, S>(s, &mut buf);
    pv_note!(s, "rule_middle_dot({:?}, {})", buf.as_str(), l.pos);
    let r = rule_middle_dot(buf.as_str(), l.pos);
    let exp = match prologue(&l, |c| c == 0x00b7) {
        Some(e) => e,
        None => {
            if l.pos == 0 || l.pos + 1 >= l.x.n {
                Err(ContextRuleError::Undefined)
            } else {
                Ok(l.x.cs[l.pos - 1] == 'l' && l.x.cs[l.pos + 1] == 'l')
            }
        }
    };
    pv_cover!(s, exp == Ok(true), "COVER: l·l");
    pv_check!(s, r == exp, "PV: rule_middle_dot = RFC 5892 A.3 at every position");
}

pub fn rule_keraia_b<const N: usize, const B: usize, S: Src>(s: &mut S) {
    let mut buf = SBuf::<B>::new();
    let l = label::<N, B, S>(s, &mut buf);
    pv_note!(s, "rule_greek_lower_numeral_sign_keraia({:?}, {})", buf.as_str(), l.pos);
    let r = rule_greek_lower_numeral_sign_keraia(buf.as_str(), l.pos);
    let exp = match prologue(&l, |c| c == 0x0375) {
        Some(e) => e,
        None => {
            if l.pos + 1 >= l.x.n {
                Err(ContextRuleError::Undefined)
            } else {
                Ok(has(l.x.cs[l.pos + 1], CTX_GREEK))
            }
        }
    };
    pv_cover!(s, exp == Ok(true) && l.pos > 0, "COVER: KERAIA allowed, not first");
    pv_check!(s, r == exp, "PV: rule_greek_lower_numeral_sign_keraia = RFC 5892 A.4 at every position");
}

pub fn rule_hebrew_b<const N: usize, const B: usize, S: Src>(s: &mut S) {
    let mut buf = SBuf::<B>::new();
    let l = label::<N, B, S>(s, &mut buf);
    pv_note!(s, "rule_hebrew_punctuation({:?}, {})", buf.as_str(), l.pos);
    let r = rule_hebrew_punctuation(buf.as_str(), l.pos);
    let exp = match prologue(&l, |c| c == 0x05f3 || c == 0x05f4) {
        Some(e) => e,
        None => {
            if l.pos == 0 {
                Err(ContextRuleError::Undefined)
            } else {
                Ok(has(l.x.cs[l.pos - 1], CTX_HEBREW))
            }
        }
    };
    pv_cover!(s, exp == Ok(true) && l.x.cs[l.pos] == '\u{05f4}', "COVER: GERSHAYIM allowed");
    pv_check!(s, r == exp, "PV: rule_hebrew_punctuation = RFC 5892 A.5/A.6 at every position");
}

pub fn rule_katakana_b<const N: usize, const B: usize, S: Src>(s: &mut S) {
    let mut buf = SBuf::<B>::new();
    let l = label::<N, B, S>(s, &mut buf);
    pv_note!(s, "rule_katakana_middle_dot({:?}, {})", buf.as_str(), l.pos);
    let r = rule_katakana_middle_dot(buf.as_str(), l.pos);
    let exp = match prologue(&l, |c| c == 0x30fb) {
        Some(e) => e,
        None => {
            let mut any = false;
            let mut i = 0;
            while i < N {
                if i < l.x.n && (has(l.x.cs[i], CTX_HIRAGANA) || has(l.x.cs[i], CTX_KATAKANA) || has(l.x.cs[i], CTX_HAN)) {
                    any = true;
                }
                i += 1;
            }
            Ok(any)
        }
    };
    pv_cover!(s, exp == Ok(true) && l.pos == 0 && l.x.n == N, "COVER: dot first, a CJK character later");
    pv_check!(s, r == exp, "PV: rule_katakana_middle_dot = RFC 5892 A.7 at every position");
}

fn any_in<const N: usize>(x: &SymStr<N>, lo: u32, hi: u32) -> bool {
    let mut any = false;
    let mut i = 0;
    while i < N {
        if i < x.n && lo <= x.cs[i] as u32 && x.cs[i] as u32 <= hi {
            any = true;
        }
        i += 1;
    }
    any
}

pub fn rule_arabic_b<const N: usize, const B: usize, S: Src>(s: &mut S) {
    let mut buf = SBuf::<B>::new();
    let l = label::<N, B, S>(s, &mut buf);
    pv_note!(s, "rule_arabic_indic_digits({:?}, {})", buf.as_str(), l.pos);
    let r = rule_arabic_indic_digits(buf.as_str(), l.pos);
    let exp = match prologue(&l, |c| 0x0660 <= c && c <= 0x0669) {
        Some(e) => e,
        None => Ok(!any_in(&l.x, 0x06f0, 0x06f9)),
    };
    pv_cover!(s, exp == Ok(false) && l.pos == N - 1, "COVER: mixed digits, rule applied to the last character");
    pv_check!(s, r == exp, "PV: rule_arabic_indic_digits = RFC 5892 A.8 at every position");
}

pub fn rule_ext_arabic_b<const N: usize, const B: usize, S: Src>(s: &mut S) {
    let mut buf = SBuf::<B>::new();
    let l = label::<N, B, S>(s, &mut buf);
    pv_note!(s, "rule_extended_arabic_indic_digits({:?}, {})", buf.as_str(), l.pos);
    let r = rule_extended_arabic_indic_digits(buf.as_str(), l.pos);
    let exp = match prologue(&l, |c| 0x06f0 <= c && c <= 0x06f9) {
        Some(e) => e,
        None => Ok(!any_in(&l.x, 0x0660, 0x0669)),
    };
    pv_cover!(s, exp == Ok(false) && l.pos == 0, "COVER: mixed digits, rule applied to the first character");
    pv_check!(s, r == exp, "PV: rule_extended_arabic_indic_digits = RFC 5892 A.9 at every position");
}

pub fn rule_zwnj_b<const N: usize, const B: usize, S: Src>(s: &mut S) {
    let mut buf = SBuf::<B>::new();
    let l = label::<N, B, S>(s, &mut buf);
    pv_note!(s, "rule_zero_width_nonjoiner({:?}, {})", buf.as_str(), l.pos);
    let r = rule_zero_width_nonjoiner(buf.as_str(), l.pos);
    match prologue(&l, |c| c == 0x200c) {
        Some(e) => {
            pv_check!(s, r == e, "PV: rule_zero_width_nonjoiner: Undefined outside the label, NotApplicable on another code point");
        }
        None => {
            let n = l.x.n;
            let pos = l.pos;
            if pos == 0 {
                pv_check!(s, r == Err(ContextRuleError::Undefined), "PV: ZWNJ first in the label: Before(cp) is undefined");
            } else if has(l.x.cs[pos - 1], CTX_VIRAMA) {
                pv_check!(s, r == Ok(true), "PV: ZWNJ after a virama is allowed");
            } else {
                // (Joining_Type:{L,D})(Joining_Type:T)*‌(Joining_Type:T)*(Joining_Type:{R,D})
                // backward scan
                let mut back_undef = true; // ran off the start while skipping T
                let mut back_ok = false;
                let mut done = false;
                let mut k = 0;
                while k < N {
                    if !done && k < pos {
                        let c = l.x.cs[pos - 1 - k];
                        if !has(c, CTX_JT_T) {
                            back_undef = false;
                            back_ok = has(c, CTX_JT_L) || has(c, CTX_JT_D);
                            done = true;
                        }
                    }
                    k += 1;
                }
                // forward scan
                let mut fwd_undef = true;
                let mut fwd_ok = false;
                let mut done2 = false;
                let mut j = 0;
                while j < N {
                    if !done2 && pos + 1 + j < n {
                        let c = l.x.cs[pos + 1 + j];
                        if !has(c, CTX_JT_T) {
                            fwd_undef = false;
                            fwd_ok = has(c, CTX_JT_R) || has(c, CTX_JT_D);
                            done2 = true;
                        }
                    }
                    j += 1;
                }
                let matches = !back_undef && back_ok && !fwd_undef && fwd_ok;
                if N >= 4 {
                    pv_cover!(s, matches && (pos >= 2 || pos + 2 < n), "COVER(n4): regular expression matches through a transparent character");
                }
                if matches {
                    pv_check!(s, r == Ok(true), "PV: ZWNJ allowed when the joining-type expression matches");
                } else {
                    // the expression does not match: false, or undefined only if a scan had to leave the label
                    let undefined_possible = back_undef || fwd_undef;
                    let ok = r == Ok(false) || (undefined_possible && r == Err(ContextRuleError::Undefined));
                    pv_check!(s, ok, "PV: ZWNJ not allowed when the joining-type expression does not match (undefined only if a scan leaves the label)");
                    pv_cover!(s, r == Ok(false) && !back_undef && back_ok && !fwd_undef, "COVER: rejected because of the following character");
                }
            }
        }
    }
}

/// Exactly the CONTEXTJ/CONTEXTO code points have a registered rule, and that rule applies to them.
pub fn registry<S: Src>(s: &mut S) {
    let cp = s.u32();
    pv_note!(s, "get_context_rule({:#x})", cp);
    let v = oracle::dpv(cp);
    let ctx = v / 8 == 3 || v / 8 == 4;
    let rule = get_context_rule(cp);
    pv_check!(s, rule.is_some() == ctx, "PV: a context rule is registered exactly for the CONTEXTJ/CONTEXTO code points (6.3.0)");
    pv_cover!(s, ctx && cp > 0x3000, "COVER: KATAKANA MIDDLE DOT");
    if let Some(f) = rule {
        if let Some(c) = char::from_u32(cp) {
            let mut b = SBuf::<4>::new();
            b.push(c);
            let r = f(b.as_str(), 0);
            pv_check!(s, r != Err(ContextRuleError::NotApplicable), "PV: the registered rule applies to its code point");
        }
    }
}
