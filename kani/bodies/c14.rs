// C14 — Derived property of every code point follows the RFC 8264 algorithm.
// Functions encoded (real code, real generated 6.3.0 tables): stringclasses::get_derived_property_value,
// IdentifierClass/FreeformClass::{get_value_from_codepoint, get_value_from_char}, every table predicate
// of precis_core::common (get_exception_val .. is_punctuation), Codepoints comparisons, binary_search_by.
// Stub: common::has_compat (NFKC of a symbolic char is out of reach) = oracle HasCompat set, which gen.py
// cross-checks against the real unicode-normalization crate on every code point assigned in 6.3.0.
// Oracle: RFC 8264 section 8 recomputed from the raw 6.3.0 UCD files (and cross-checked with the IANA CSV).
use super::oracle;
use super::sup::*;
use precis_core::{DerivedPropertyValue, FreeformClass, IdentifierClass, StringClass};

pub fn dpv_of(v: u8) -> DerivedPropertyValue {
    match v {
        0 => DerivedPropertyValue::PValid,
        1 => DerivedPropertyValue::SpecClassPval,
        2 => DerivedPropertyValue::SpecClassDis,
        3 => DerivedPropertyValue::ContextJ,
        4 => DerivedPropertyValue::ContextO,
        5 => DerivedPropertyValue::Disallowed,
        _ => DerivedPropertyValue::Unassigned,
    }
}

/// every code point of chunk K (the 16 chunks partition 0..=u32::MAX): IdentifierClass on the real tables
pub fn id_chunk<const K: usize, S: Src>(s: &mut S) {
    let (lo, hi) = oracle::DPV_CHUNKS[K];
    let cp = s.u32();
    s.assume(lo <= cp && cp <= hi);
    pv_note!(s, "IdentifierClass::get_value_from_codepoint({:#x})", cp);
    let v = oracle::dpv(cp);
    let eid = dpv_of(v / 8);
    let gid = IdentifierClass::default().get_value_from_codepoint(cp);
    pv_cover!(s, v / 8 != 5 && v / 8 != 6, "COVER: a code point that is not Disallowed/Unassigned in this chunk");
    pv_check!(s, gid == eid, "PV: IdentifierClass value of the code point = RFC 8264 section 8 over 6.3.0 data");
    if cp > 0x10FFFF || (0xD800 <= cp && cp <= 0xDFFF) {
        pv_check!(s, gid == DerivedPropertyValue::Disallowed, "PV: surrogates and values above U+10FFFF are never valid");
    }
}

/// every code point of chunk K: FreeformClass on the real tables (thorough tier; quick derives it from
/// id_chunk + pairing)
pub fn free_chunk<const K: usize, S: Src>(s: &mut S) {
    let (lo, hi) = oracle::DPV_CHUNKS[K];
    let cp = s.u32();
    s.assume(lo <= cp && cp <= hi);
    pv_note!(s, "FreeformClass::get_value_from_codepoint({:#x})", cp);
    let v = oracle::dpv(cp);
    let gff = FreeformClass::default().get_value_from_codepoint(cp);
    pv_cover!(s, v % 8 != 5 && v % 8 != 6, "COVER: a code point that is not Disallowed/Unassigned in this chunk");
    pv_check!(s, gff == dpv_of(v % 8), "PV: FreeformClass value of the code point = RFC 8264 section 8 over 6.3.0 data");
}

/// Class pairing and entry points, for ANY table contents: every table predicate is replaced by an
/// arbitrary (but fixed, i.e. deterministic) outcome chosen by the solver (stub set S-PRED).
pub fn pairing<S: Src>(s: &mut S) {
    super::stubs::pred_init(s);
    let cp = s.u32();
    let id = IdentifierClass::default();
    let ff = FreeformClass::default();
    let gid = id.get_value_from_codepoint(cp);
    let gff = ff.get_value_from_codepoint(cp);
    let mapped = if gid == DerivedPropertyValue::SpecClassDis { DerivedPropertyValue::SpecClassPval } else { gid };
    pv_check!(s, gff == mapped, "PV: FreeformClass value = IdentifierClass value with SpecClassDis replaced by SpecClassPval");
    pv_check!(s, gid != DerivedPropertyValue::SpecClassPval, "PV: IdentifierClass never class-validates");
    pv_check!(s, gff != DerivedPropertyValue::SpecClassDis, "PV: FreeformClass never class-disallows");
    pv_cover!(s, gid == DerivedPropertyValue::SpecClassDis, "COVER: ID_DIS / FREE_PVAL outcome");
    pv_cover!(s, gid == DerivedPropertyValue::ContextJ, "COVER: CONTEXTJ outcome");
    if cp <= 0x10FFFF && !(0xD800 <= cp && cp <= 0xDFFF) {
        let c = unsafe { char::from_u32_unchecked(cp) };
        pv_check!(s, id.get_value_from_char(c) == gid, "PV: IdentifierClass char entry point = code point entry point");
        pv_check!(s, ff.get_value_from_char(c) == gff, "PV: FreeformClass char entry point = code point entry point");
    }
}

/// The decision list is evaluated in the RFC order: with arbitrary predicate outcomes the result is the
/// outcome of the FIRST predicate that holds.
pub fn decision_order<S: Src>(s: &mut S) {
    super::stubs::pred_init(s);
    let cp = s.u32();
    let gid = IdentifierClass::default().get_value_from_codepoint(cp);
    let p = super::stubs::pred_snapshot();
    use DerivedPropertyValue::*;
    let exp = if let Some(v) = p.exception {
        v
    } else if let Some(v) = p.backward {
        v
    } else if p.unassigned {
        Unassigned
    } else if p.ascii7 {
        PValid
    } else if p.join_control {
        ContextJ
    } else if p.old_hangul_jamo {
        Disallowed
    } else if p.ignorable {
        Disallowed
    } else if p.control {
        Disallowed
    } else if p.has_compat {
        SpecClassDis
    } else if p.letter_digit {
        PValid
    } else if p.other_letter_digit {
        SpecClassDis
    } else if p.space {
        SpecClassDis
    } else if p.symbol {
        SpecClassDis
    } else if p.punctuation {
        SpecClassDis
    } else {
        Disallowed
    };
    pv_check!(s, gid == exp, "PV: the RFC 8264 decision list is evaluated in its fixed order");
    pv_cover!(s, p.has_compat && p.letter_digit && gid == SpecClassDis, "COVER: HasCompat wins over LetterDigits");
}

/// Layer A per predicate, through the public API: predicate P runs on its REAL generated tables, every other
/// predicate is an S-PRED constant (all false; Punctuation = a symbolic bool so that "P false" is told apart from
/// every outcome of P).  P: 0 exception 1 unassigned 2 ascii7 3 join_control 4 old_hangul_jamo 5 ignorable 6 control
/// 8 letter_digit 9 other_letter_digit 10 space 11 symbol 12 punctuation   (7 = has_compat: not reachable, see S-COMPAT)
pub fn pred_real<const P: usize, S: Src>(s: &mut S) {
    let b = if P == 12 { false } else { s.bool() };
    super::stubs::pred_set_all_false(b);
    let cp = s.u32();
    pv_note!(s, "predicate #{} at code point {:#x}", P, cp);
    let got = IdentifierClass::default().get_value_from_codepoint(cp);
    use DerivedPropertyValue::*;
    let fall = if b { SpecClassDis } else { Disallowed };
    let m = oracle::pred_mask(cp);
    let e = oracle::exception_val(cp);
    let holds = if P == 0 { e != 255 } else { m & (1u16 << (P - 1)) != 0 };
    pv_cover!(s, holds, "COVER: a code point for which the predicate holds");
    let exp = if P == 0 {
        if e == 255 { fall } else { dpv_of(e) }
    } else {
        if !holds {
            fall
        } else {
            match P {
                1 => Unassigned,
                2 => PValid,
                3 => ContextJ,
                4 | 5 | 6 => Disallowed,
                8 => PValid,
                _ => SpecClassDis,
            }
        }
    };
    pv_check!(s, got == exp, "PV: table predicate (real generated 6.3.0 tables) = RFC 8264 section 9 category over the raw UCD, every u32");
}

/// Entry points and class pairing for every u32 with the predicates of the real data (S-PREDO): both classes, char and
/// code-point entry points, against the oracle value.  Replayable natively (the outcomes are the real tables').
pub fn entry_points<S: Src>(s: &mut S) {
    let cp = s.u32();
    pv_note!(s, "both classes, both entry points at {:#x}", cp);
    super::stubs::predo_set(cp);
    let v = oracle::dpv(cp);
    let id = IdentifierClass::default();
    let ff = FreeformClass::default();
    pv_check!(s, id.get_value_from_codepoint(cp) == dpv_of(v / 8), "PV: IdentifierClass code point entry = RFC 8264 value");
    pv_check!(s, ff.get_value_from_codepoint(cp) == dpv_of(v % 8), "PV: FreeformClass code point entry = RFC 8264 value");
    if let Some(c) = char::from_u32(cp) {
        pv_check!(s, id.get_value_from_char(c) == dpv_of(v / 8), "PV: IdentifierClass char entry = RFC 8264 value");
        pv_check!(s, ff.get_value_from_char(c) == dpv_of(v % 8), "PV: FreeformClass char entry = RFC 8264 value");
        pv_cover!(s, v == 2 * 8 + 1, "COVER: an ID_DIS / FREE_PVAL character");
    } else {
        pv_check!(s, v == 5 * 8 + 5, "PV: surrogates and values above U+10FFFF are DISALLOWED");
    }
}
