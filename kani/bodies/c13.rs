// C13 — stabilize returns only fixed points and honours its iteration contract.
// Function encoded: precis_core::profile::stabilize (real code, real Cow/String).
// `f` ranges over ALL functions on K distinct strings into (K strings + failure): a symbolic table.
use super::sup::*;
use core::cell::Cell;
use precis_core::profile::stabilize;
use precis_core::{CodepointInfo, DerivedPropertyValue, Error};
use std::borrow::Cow;

pub const K: usize = 5;
// distinct strings of distinct byte lengths, each a PREFIX of the next: a rule may therefore answer with a
// borrowed sub-slice of its input that differs from the input (a trimming rule), as well as with an owned string
const NAMES: [&str; K] = ["", "a", "ab", "ab\u{e9}", "ab\u{e9}c"];

fn idx(x: &str) -> usize {
    let mut i = 0;
    while i < K {
        if x.len() == NAMES[i].len() {
            return i;
        }
        i += 1;
    }
    K
}

fn constrain<F>(f: F) -> F
where
    F: for<'b> Fn(&'b str) -> Result<Cow<'b, str>, Error>,
{
    f
}

fn err_of(i: usize) -> Error {
    // a distinct typed error per failing state
    Error::BadCodepoint(CodepointInfo::new(i as u32, i, DerivedPropertyValue::Disallowed))
}

pub fn stabilize_any_fn<S: Src>(s: &mut S) {
    let mut t = [0usize; K];
    let mut i = 0;
    while i < K {
        t[i] = s.below(K + 1); // K = this state fails
        i += 1;
    }
    let owned_when_equal = s.bool(); // an unchanged result may come back borrowed or owned
    let borrow_prefix = s.bool(); // a shorter result may come back as a borrowed prefix of the input
    let start = s.below(K);
    let calls = Cell::new(0usize);
    let bad_arg = Cell::new(false);
    let f = constrain(|x: &str| {
        calls.set(calls.get() + 1);
        let i = idx(x);
        if i >= K || x != NAMES[i] {
            bad_arg.set(true);
            return Err(Error::Invalid);
        }
        let n = t[i];
        if n == K {
            Err(err_of(i))
        } else if n == i && !owned_when_equal {
            Ok(Cow::Borrowed(x))
        } else if n < i && borrow_prefix {
            Ok(Cow::Borrowed(&x[..NAMES[n].len()]))
        } else {
            Ok(Cow::Owned(String::from(NAMES[n])))
        }
    });
    let r = stabilize(NAMES[start], f);

    // specification: first application + three re-applications
    let mut cur = start;
    let mut exp_calls = 0usize;
    let mut exp: Option<Result<usize, usize>> = None; // Ok(state) accepted, Err(state) = f failed there
    let mut step = 0;
    while step < 4 {
        if exp.is_none() {
            exp_calls += 1;
            let n = t[cur];
            if n == K {
                exp = Some(Err(cur));
            } else if n == cur {
                exp = Some(Ok(cur));
            } else {
                cur = n;
            }
        }
        step += 1;
    }
    pv_check!(s, !bad_arg.get(), "PV: f is only applied to strings reachable from the start");
    pv_check!(s, calls.get() <= 4, "PV: f applied at most four times");
    match exp {
        Some(Ok(st)) => {
            pv_cover!(s, exp_calls == 4, "COVER: accepted at the fourth application");
            pv_cover!(s, exp_calls == 1, "COVER: accepted at the first application");
            match r {
                Ok(ref x) => {
                    pv_check!(s, idx(x) == st && x == NAMES[st], "PV: accepted value is the fixed point reached");
                    pv_check!(s, t[st] == st, "PV: accepted value is a fixed point of f");
                }
                Err(_) => {
                    pv_check!(s, false, "PV: a string that stops changing within 1+3 applications is accepted");
                }
            }
            pv_check!(s, calls.get() == exp_calls, "PV: number of applications when accepted");
        }
        Some(Err(st)) => {
            pv_cover!(s, exp_calls == 4, "COVER: f fails at the fourth application");
            pv_check!(s, r == Err(err_of(st)), "PV: f's own error is returned");
            pv_check!(s, calls.get() == exp_calls, "PV: no application after f failed");
        }
        None => {
            pv_cover!(s, true, "COVER: still changing after four applications");
            pv_check!(s, r == Err(Error::Invalid), "PV: still changing after 1+3 applications is Error::Invalid");
        }
    }
}
