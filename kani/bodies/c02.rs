// C02 — A string class accepts a label iff every code point is valid in its context.
// Functions encoded: the default method StringClass::allows, stringclasses::allowed_by_context_rule, context::get_context_rule and
// the nine rule functions (real code).  `any_class`: a user-supplied class whose derived property values are an arbitrary
// function of the character (chosen by the solver).  `std_class`: IdentifierClass / FreeformClass with the derived-property
// computation replaced by the oracle (S-DPV, discharged by C14) and the context predicates by S-CTX (discharged by C03 Layer A).
// The rule outcomes inside the oracle are the real rule functions (their correctness is C03).
use super::sup::*;
use precis_core::context::{get_context_rule, ContextRuleError};
use precis_core::{CodepointInfo, DerivedPropertyValue, Error, FreeformClass, IdentifierClass, StringClass, UnexpectedError};

struct AnyClass<const N: usize> {
    cs: [char; N],
    vals: [u8; N],
}

impl<const N: usize> AnyClass<N> {
    fn val(&self, c: char) -> u8 {
        // an arbitrary FUNCTION of the character: the value attached to its first occurrence
        let mut i = 0;
        while i < N {
            if self.cs[i] == c {
                return self.vals[i];
            }
            i += 1;
        }
        5
    }
}

impl<const N: usize> StringClass for AnyClass<N> {
    fn get_value_from_char(&self, c: char) -> DerivedPropertyValue {
        super::c14::dpv_of(self.val(c))
    }
    fn get_value_from_codepoint(&self, cp: u32) -> DerivedPropertyValue {
        match char::from_u32(cp) {
            Some(c) => self.get_value_from_char(c),
            None => DerivedPropertyValue::Disallowed,
        }
    }
}

/// the statement of C02, evaluated on the character array
fn spec<const N: usize>(label: &str, x: &SymStr<N>, val: impl Fn(char) -> DerivedPropertyValue) -> Result<(), Error> {
    let mut i = 0;
    while i < N {
        if i < x.n {
            let c = x.cs[i];
            let v = val(c);
            match v {
                DerivedPropertyValue::PValid | DerivedPropertyValue::SpecClassPval => {}
                DerivedPropertyValue::SpecClassDis | DerivedPropertyValue::Disallowed | DerivedPropertyValue::Unassigned => {
                    return Err(Error::BadCodepoint(CodepointInfo::new(c as u32, i, v)));
                }
                DerivedPropertyValue::ContextJ | DerivedPropertyValue::ContextO => match get_context_rule(c as u32) {
                    None => {
                        return Err(Error::Unexpected(UnexpectedError::MissingContextRule(CodepointInfo::new(c as u32, i, v))));
                    }
                    Some(rule) => match rule(label, i) {
                        Ok(true) => {}
                        Ok(false) => return Err(Error::BadCodepoint(CodepointInfo::new(c as u32, i, v))),
                        Err(ContextRuleError::Undefined) => return Err(Error::Unexpected(UnexpectedError::Undefined)),
                        Err(ContextRuleError::NotApplicable) => {
                            return Err(Error::Unexpected(UnexpectedError::ContextRuleNotApplicable(CodepointInfo::new(c as u32, i, v))));
                        }
                    },
                },
            }
        }
        i += 1;
    }
    Ok(())
}

/// User-supplied class: derived property values = ANY function of the character; the rule registry and the rule
/// outcomes are ANY functions too (S-RULE), so this decides allows()/allowed_by_context_rule for every class and
/// every behaviour of the rules; the real registry and rules are C03's subject.
pub fn any_class<const N: usize, const B: usize, S: Src>(s: &mut S) {
    let x = SymStr::<N>::any(s);
    let mut buf = SBuf::<B>::new();
    x.fill(&mut buf);
    let mut vals = [0u8; N];
    let mut i = 0;
    while i < N {
        vals[i] = s.below(7) as u8;
        let has_rule = s.bool();
        let out = s.below(4) as u8;
        unsafe {
            super::stubs::ANY_CS[i] = x.cs[i] as u32;
            super::stubs::ANY_HAS_RULE[i] = has_rule;
            super::stubs::ANY_OUT[i] = out;
        }
        let _ = (has_rule, out);
        i += 1;
    }
    let class = AnyClass::<N> { cs: x.cs, vals };
    pv_note!(s, "user class with values {:?} on label {:?}", vals, buf.as_str());
    let got = class.allows(buf.as_str());
    let exp = spec::<N>(buf.as_str(), &x, |c| class.get_value_from_char(c));
    pv_cover!(s, x.n == N && exp.is_ok() && vals[N - 1] >= 3, "COVER: accepted label ending in a contextual code point");
    pv_cover!(s, matches!(exp, Err(Error::BadCodepoint(ref i)) if i.position == N - 1 && i.cp >= 0x10000),
        "COVER: rejected at the last position, after multi-byte characters");
    pv_cover!(s, matches!(exp, Err(Error::Unexpected(UnexpectedError::MissingContextRule(_)))), "COVER: contextual value on a character without rule");
    pv_cover!(s, matches!(exp, Err(Error::Unexpected(UnexpectedError::Undefined))), "COVER: rule had to look beyond the label");
    pv_cover!(s, matches!(exp, Err(Error::Unexpected(UnexpectedError::ContextRuleNotApplicable(_)))), "COVER: rule not applicable");
    pv_check!(s, got == exp, "PV: allows() accepts iff every code point is valid in context, else reports the first offender (code point, character position, property)");
}

/// User-supplied class (values = ANY function of the characters) with the REAL registry shape and each rule replaced by
/// its RFC 5892 specification on the character array (S-RULESPEC): cheap, and every counterexample exists on the
/// real code (rule == specification is C03), so it replays natively.  Labels never contain U+200C (ZWNJ is C03's).
pub fn any_class_rulespec<const N: usize, const B: usize, S: Src>(s: &mut S) {
    let x = SymStr::<N>::any(s);
    let mut buf = SBuf::<B>::new();
    x.fill(&mut buf);
    let mut vals = [0u8; N];
    let mut i = 0;
    while i < N {
        vals[i] = s.below(7) as u8;
        s.assume(x.cs[i] as u32 != 0x200c);
        unsafe {
            super::stubs::ANY_CS[i] = x.cs[i] as u32;
            super::stubs::ANY_MASK[i] = super::oracle::ctx_mask(x.cs[i] as u32);
        }
        i += 1;
    }
    unsafe {
        super::stubs::ANY_N = x.n;
    }
    let class = AnyClass::<N> { cs: x.cs, vals };
    pv_note!(s, "user class with values {:?} on label {:?}", vals, buf.as_str());
    let got = class.allows(buf.as_str());
    let exp = spec::<N>(buf.as_str(), &x, |c| class.get_value_from_char(c));
    pv_cover!(s, x.n == N && exp.is_ok() && vals[N - 1] >= 3 && x.cs[N - 1] as u32 == 0x200d, "COVER: accepted label ending in ZWJ");
    pv_cover!(s, matches!(exp, Err(Error::BadCodepoint(ref i)) if i.position == N - 1 && i.cp == 0x200d), "COVER: ZWJ rejected at the last position");
    pv_check!(s, got == exp, "PV: allows() with the real rule registry: accepts iff every code point is valid in context, else the first offender");
}

pub fn std_class<const N: usize, const B: usize, S: Src>(s: &mut S) {
    let x = SymStr::<N>::any(s);
    let mut buf = SBuf::<B>::new();
    x.fill(&mut buf);
    let ident = s.bool();
    pv_note!(s, "{}::allows({:?})", if ident { "IdentifierClass" } else { "FreeformClass" }, buf.as_str());
    let id = IdentifierClass::default();
    let ff = FreeformClass::default();
    let got = if ident { id.allows(buf.as_str()) } else { ff.allows(buf.as_str()) };
    let exp = spec::<N>(buf.as_str(), &x, |c| {
        let v = super::oracle::dpv(c as u32);
        super::c14::dpv_of(if ident { v / 8 } else { v % 8 })
    });
    pv_cover!(s, x.n == N && exp.is_ok() && (x.cs[N - 1] as u32 == 0x200d), "COVER: accepted label ending in ZWJ");
    pv_cover!(s, !ident && x.n == N && exp.is_ok() && x.cs[0] == ' ', "COVER: FreeformClass accepts a space");
    pv_check!(s, got == exp, "PV: standard class allows() = first offending code point by the RFC 8264 derived property and RFC 5892 rules");
    let never = !matches!(got, Err(Error::Unexpected(UnexpectedError::MissingContextRule(_))) | Err(Error::Unexpected(UnexpectedError::ContextRuleNotApplicable(_))));
    pv_check!(s, never, "PV: the standard classes never report a missing or inapplicable context rule");
}
