// C10 — Case mapping lowercases every character, wherever it stands.
// Functions encoded: precis_profiles::common::case_mapping_rule through
// UsernameCaseMapped::case_mapping_rule / Nickname::case_mapping_rule (real code), and std's
// char::is_uppercase / is_lowercase / to_lowercase with their real Unicode tables.
// Oracle: std's per-character full lowercase mapping applied to every character independently
// (unconditional, untailored, context-free -- str::to_lowercase's final-sigma rule is NOT in it).
use super::sup::*;
use precis_core::profile::Rules;
use precis_profiles::{Nickname, UsernameCaseMapped};

/// expected output characters for up to N input characters (at most 3 per character)
fn expected<const N: usize, const M: usize>(x: &SymStr<N>, exp: &mut [char; M]) -> usize {
    let mut m = 0;
    let mut i = 0;
    while i < N {
        if i < x.n {
            let mut it = x.cs[i].to_lowercase();
            if let Some(a) = it.next() {
                exp[m] = a;
                m += 1;
            }
            if let Some(b) = it.next() {
                exp[m] = b;
                m += 1;
            }
            if let Some(c) = it.next() {
                exp[m] = c;
                m += 1;
            }
        }
        i += 1;
    }
    m
}

/// N symbolic characters (every scalar value), M = 3N.
pub fn case_map<const N: usize, const B: usize, const M: usize, S: Src>(s: &mut S) {
    let x = SymStr::<N>::any(s);
    case_map_on::<N, B, M, S>(s, x)
}

/// exactly N symbolic characters (cheaper: every loop is bounded by N+1)
pub fn case_exact<const N: usize, const B: usize, const M: usize, S: Src>(s: &mut S) {
    let x = SymStr::<N>::exact(s);
    case_map_on::<N, B, M, S>(s, x)
}

fn case_map_on<const N: usize, const B: usize, const M: usize, S: Src>(s: &mut S, x: SymStr<N>) {
    let mut buf = SBuf::<B>::new();
    x.fill(&mut buf);
    let input = buf.as_str();
    pv_note!(s, "UsernameCaseMapped::case_mapping_rule({:?})", input);
    let mut exp = ['\0'; M];
    let m = expected::<N, M>(&x, &mut exp);
    pv_cover!(s, x.n == N && m > N, "COVER: a character whose lowercase mapping has more than one character");
    if N >= 2 {
        pv_cover!(s, x.n == N && exp[0] == x.cs[0] && (x.cs[0] as u32) >= 0x800 && exp[N - 1] != x.cs[N - 1],
            "COVER: unchanged 3/4-byte character first, mapped character last");
    }
    match UsernameCaseMapped::new().case_mapping_rule(input) {
        Ok(out) => {
            let mut got = ['\0'; M];
            let k = decode(&out, &mut got);
            pv_check!(s, k == m, "PV: case mapping output length = sum of the per-character lowercase mappings");
            let mut same = true;
            let mut j = 0;
            while j < M {
                if j < m && j < k && got[j] != exp[j] {
                    same = false;
                }
                j += 1;
            }
            pv_check!(s, same, "PV: every character is replaced by its full lowercase mapping, independent of position");
        }
        Err(_) => {
            pv_check!(s, false, "PV: case mapping never fails");
        }
    }
}

/// Nickname binds the same rule.
pub fn nick_one<S: Src>(s: &mut S) {
    let x = SymStr::<1>::exact(s);
    let mut buf = SBuf::<4>::new();
    x.fill(&mut buf);
    pv_note!(s, "Nickname::case_mapping_rule({:?})", buf.as_str());
    let mut exp = ['\0'; 3];
    let m = expected::<1, 3>(&x, &mut exp);
    match Nickname::new().case_mapping_rule(buf.as_str()) {
        Ok(out) => {
            let mut got = ['\0'; 3];
            let k = decode(&out, &mut got);
            pv_check!(s, k == m && eq_chars(&got, &exp), "PV: Nickname case mapping = full lowercase mapping of the character");
            pv_cover!(s, k == 2, "COVER: U+0130");
        }
        Err(_) => {
            pv_check!(s, false, "PV: case mapping never fails");
        }
    }
}

/// Layer B: up to N characters drawn from the witness alphabet, std case tables stubbed by the model.
pub fn case_sigma<const N: usize, const B: usize, const M: usize, S: Src>(s: &mut S) {
    let x = SymStr::<N>::from_alphabet(s, &super::oracle::SIGMA_CASE);
    case_map_on::<N, B, M, S>(s, x)
}

/// The model used by Layer B equals the real std functions on every witness (concrete characters).
pub fn model_valid<S: Src>(s: &mut S) {
    let k = s.below(super::oracle::SIGMA_CASE.len());
    let c = super::oracle::SIGMA_CASE[k];
    let mut it = c.to_lowercase();
    let got = [it.next().unwrap_or('\0'), it.next().unwrap_or('\0'), it.next().unwrap_or('\0')];
    let exp = super::oracle::case_to_lower(c);
    pv_check!(s, exp == Some(got), "PV: case model == char::to_lowercase on the witness");
    pv_check!(s, super::oracle::case_is_lowercase(c) == Some(c.is_lowercase()), "PV: case model == char::is_lowercase on the witness");
    pv_cover!(s, got[1] != '\0', "COVER: multi-character lowercase mapping");
}

/// Concrete witnesses for the one context-sensitive lowercase rule of Unicode (Final_Sigma): the rule must map U+03A3
/// to U+03C3 wherever it stands.  Inputs are constants (folded by the solver), real std, no stub.
pub fn sigma_context<S: Src>(s: &mut S) {
    const W: [&str; 6] = ["\u{3a3}", "A\u{3a3}", "\u{391}\u{3a3}", "a\u{3a3}", "\u{3a3}A", "A\u{3a3} \u{3a3}"];
    let mut k = 0;
    while k < 6 {
        let input = W[k];
        pv_note!(s, "case_mapping_rule({:?})", input);
        match UsernameCaseMapped::new().case_mapping_rule(input) {
            Ok(out) => {
                let mut it_out = out.chars();
                let mut ok = true;
                for c in input.chars() {
                    for e in c.to_lowercase() {
                        if it_out.next() != Some(e) {
                            ok = false;
                        }
                    }
                }
                if it_out.next().is_some() {
                    ok = false;
                }
                pv_check!(s, ok, "PV: U+03A3 is mapped to U+03C3 whatever precedes or follows it (no Final_Sigma context rule)");
            }
            Err(_) => {
                pv_check!(s, false, "PV: case mapping never fails");
            }
        }
        k += 1;
    }
    pv_cover!(s, true, "COVER: reached");
}
