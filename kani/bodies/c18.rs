// C18 — Codepoints entries compare consistently with code points.
// Functions encoded: every PartialEq/PartialOrd impl between precis_core::Codepoints and u32
// (both directions) as generated from codepoints.template by the real build.
use super::sup::*;
use core::cmp::Ordering;
use precis_core::Codepoints;

fn entry<S: Src>(s: &mut S) -> (Codepoints, u32, u32) {
    let is_range = s.bool();
    let a = s.u32();
    let b = s.u32();
    s.assume(a <= b);
    if is_range {
        (Codepoints::Range(a..=b), a, b)
    } else {
        (Codepoints::Single(a), a, a)
    }
}

/// one entry (single or range, start <= end) against one code point: full 32-bit, loop-free
pub fn cmp_total<S: Src>(s: &mut S) {
    let (e, lo, hi) = entry(s);
    let cp = s.u32();
    let lt = hi < cp;
    let gt = lo > cp;
    let eq = lo <= cp && cp <= hi;
    pv_cover!(s, lt, "COVER: entry below cp");
    pv_cover!(s, gt, "COVER: entry above cp");
    pv_cover!(s, eq && lo < cp && cp < hi, "COVER: cp strictly inside range");

    // entry ? cp
    pv_check!(s, e.lt(&cp) == lt, "PV: Codepoints < u32");
    pv_check!(s, e.gt(&cp) == gt, "PV: Codepoints > u32");
    pv_check!(s, e.eq(&cp) == eq, "PV: Codepoints == u32");
    pv_check!(s, e.ne(&cp) == !eq, "PV: Codepoints != u32");
    pv_check!(s, e.le(&cp) == (lt || eq), "PV: Codepoints <= u32");
    pv_check!(s, e.ge(&cp) == (gt || eq), "PV: Codepoints >= u32");
    let exp = if lt {
        Ordering::Less
    } else if gt {
        Ordering::Greater
    } else {
        Ordering::Equal
    };
    pv_check!(s, e.partial_cmp(&cp) == Some(exp), "PV: Codepoints partial_cmp u32 is Some and agrees");
    // exactly one of the three
    let n = (e.lt(&cp) as u8) + (e.gt(&cp) as u8) + (e.eq(&cp) as u8);
    pv_check!(s, n == 1, "PV: exactly one of <, ==, > holds");

    // cp ? entry (mirror)
    pv_check!(s, cp.lt(&e) == gt, "PV: u32 < Codepoints mirrors");
    pv_check!(s, cp.gt(&e) == lt, "PV: u32 > Codepoints mirrors");
    pv_check!(s, cp.eq(&e) == eq, "PV: u32 == Codepoints mirrors");
    pv_check!(s, cp.ne(&e) == !eq, "PV: u32 != Codepoints mirrors");
    pv_check!(s, cp.le(&e) == (gt || eq), "PV: u32 <= Codepoints mirrors");
    pv_check!(s, cp.ge(&e) == (lt || eq), "PV: u32 >= Codepoints mirrors");
    pv_check!(s, cp.partial_cmp(&e) == Some(exp.reverse()), "PV: u32 partial_cmp Codepoints mirrors");
}

/// two entries laid out in increasing order form a valid binary-search key for any code point
pub fn cmp_monotone<S: Src>(s: &mut S) {
    let (e1, _lo1, hi1) = entry(s);
    let (e2, lo2, _hi2) = entry(s);
    s.assume(hi1 < lo2);
    let cp = s.u32();
    let c1 = e1.partial_cmp(&cp);
    let c2 = e2.partial_cmp(&cp);
    pv_check!(s, c1.is_some() && c2.is_some(), "PV: partial_cmp never None");
    // allowed along increasing entries: Less* Equal? Greater*
    let bad = c1 != Some(Ordering::Less) && c2 != Some(Ordering::Greater);
    pv_check!(s, !bad, "PV: comparison results are monotone along increasing entries");
    pv_cover!(s, c1 == Some(Ordering::Less) && c2 == Some(Ordering::Equal), "COVER: cp in second entry");
    pv_cover!(s, c1 == Some(Ordering::Less) && c2 == Some(Ordering::Greater), "COVER: cp in the gap");
}
