// C01 — Every public operation returns; no input can make it panic.
// Kani's panic / arithmetic-overflow / slice-index / str-boundary / unwrap checks are on in EVERY harness of /verif; the C01
// check runs a designated set of them (registered under C01 in harnesses.py, `only_safety`): a failed safety check that
// replays natively as a panic is a C01 violation.  This file adds the harness that only C01 needs.
use super::sup::*;
use precis_core::context::*;

/// each of the nine context rules (symbolic choice) on a fully symbolic label, ANY usize offset: returns
pub fn ctx_rules<const N: usize, const B: usize, const K: usize, S: Src>(s: &mut S) {
    let x = SymStr::<N>::any(s);
    let mut buf = SBuf::<B>::new();
    x.fill(&mut buf);
    let off = s.usize();
    let k = K;
    pv_note!(s, "context rule #{} on ({:?}, {})", k, buf.as_str(), off);
    let l = buf.as_str();
    let r = match k {
        0 => rule_zero_width_nonjoiner(l, off),
        1 => rule_zero_width_joiner(l, off),
        2 => rule_middle_dot(l, off),
        3 => rule_greek_lower_numeral_sign_keraia(l, off),
        4 => rule_hebrew_punctuation(l, off),
        5 => rule_katakana_middle_dot(l, off),
        6 => rule_arabic_indic_digits(l, off),
        7 => rule_extended_arabic_indic_digits(l, off),
        _ => {
            let cp = s.u32();
            match get_context_rule(cp) {
                Some(f) => f(l, off),
                None => Ok(false),
            }
        }
    };
    pv_cover!(s, r.is_ok(), "COVER: the rule answers Ok");
    pv_cover!(s, off == usize::MAX, "COVER: offset usize::MAX");
    pv_check!(s, r.is_ok() || r.is_err(), "PV: every context rule returns a value for every label and offset");
}
