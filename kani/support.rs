// Shared support for every harness (included with `include!` into the external harness crate,
// into the in-crate hooks and into the native replay binary).
//
// A harness body is written once, generic over `Src`:
//   * under Kani, `KSrc` draws every value from `kani::any()`, `assume` is `kani::assume`;
//   * natively, `RSrc` replays the byte vectors printed by Kani's concrete playback, in call order,
//     and records failing `pv_check!` labels instead of aborting.

#[allow(dead_code)]
pub trait Src {
    fn u8(&mut self) -> u8;
    fn u32(&mut self) -> u32;
    fn usize(&mut self) -> usize;
    fn assume(&mut self, c: bool);
    fn fail(&mut self, label: &'static str);
    fn covered(&mut self, label: &'static str);
    /// human-readable description of the concrete input (native replay only)
    fn note(&mut self, _m: String) {}

    fn bool(&mut self) -> bool {
        let v = self.u8();
        self.assume(v < 2);
        v == 1
    }
    /// value in 0..n
    fn below(&mut self, n: usize) -> usize {
        let v = self.usize();
        self.assume(v < n);
        v
    }
    /// any Unicode scalar value
    fn ch(&mut self) -> char {
        let v = self.u32();
        self.assume(v < 0x110000 && !(0xD800 <= v && v <= 0xDFFF));
        unsafe { char::from_u32_unchecked(v) }
    }
}

#[cfg(kani)]
pub struct KSrc;

#[cfg(kani)]
impl Src for KSrc {
    #[inline(always)]
    fn u8(&mut self) -> u8 {
        kani::any()
    }
    #[inline(always)]
    fn u32(&mut self) -> u32 {
        kani::any()
    }
    #[inline(always)]
    fn usize(&mut self) -> usize {
        kani::any()
    }
    #[inline(always)]
    fn assume(&mut self, c: bool) {
        kani::assume(c)
    }
    fn fail(&mut self, _label: &'static str) {}
    fn covered(&mut self, _label: &'static str) {}
}

/// Native replay source.
#[cfg(not(kani))]
#[allow(dead_code)]
pub struct RSrc {
    pub vals: Vec<Vec<u8>>,
    pub pos: usize,
    pub failed: Vec<&'static str>,
    pub covered: Vec<&'static str>,
    pub assume_violated: bool,
    pub exhausted: bool,
    pub notes: Vec<String>,
}

#[cfg(not(kani))]
#[allow(dead_code)]
impl RSrc {
    pub fn new(vals: Vec<Vec<u8>>) -> Self {
        RSrc { vals, pos: 0, failed: Vec::new(), covered: Vec::new(), assume_violated: false, exhausted: false, notes: Vec::new() }
    }
    fn next(&mut self, n: usize) -> u64 {
        let mut out = 0u64;
        if self.pos < self.vals.len() {
            let v = &self.vals[self.pos];
            for i in 0..n {
                if i < v.len() {
                    out |= (v[i] as u64) << (8 * i);
                }
            }
        } else {
            self.exhausted = true;
        }
        self.pos += 1;
        out
    }
}

#[cfg(not(kani))]
impl Src for RSrc {
    fn u8(&mut self) -> u8 {
        self.next(1) as u8
    }
    fn u32(&mut self) -> u32 {
        self.next(4) as u32
    }
    fn usize(&mut self) -> usize {
        self.next(8) as usize
    }
    fn assume(&mut self, c: bool) {
        if !c {
            self.assume_violated = true;
        }
    }
    fn fail(&mut self, label: &'static str) {
        self.failed.push(label);
    }
    fn covered(&mut self, label: &'static str) {
        self.covered.push(label);
    }
    fn note(&mut self, m: String) {
        self.notes.push(m);
    }
}

/// Describe the concrete input in native replay (no-op under Kani).
#[allow(unused_macros)]
macro_rules! pv_note {
    ($s:expr, $($arg:tt)*) => {{
        #[cfg(kani)]
        {
            let _ = &$s;
        }
        #[cfg(not(kani))]
        {
            $s.note(format!($($arg)*));
        }
    }};
}

/// Property assertion: `assert!` under Kani (the label is the check description), a recorded
/// failure in native replay.
#[allow(unused_macros)]
macro_rules! pv_check {
    ($s:expr, $c:expr, $l:literal) => {{
        let pv_c: bool = $c;
        #[cfg(kani)]
        {
            let _ = &$s;
            assert!(pv_c, $l);
        }
        #[cfg(not(kani))]
        {
            if !pv_c {
                $s.fail($l);
            }
        }
    }};
}

/// Reachability witness / known-finding witness.
#[allow(unused_macros)]
macro_rules! pv_cover {
    ($s:expr, $c:expr, $l:literal) => {{
        let pv_c: bool = $c;
        #[cfg(kani)]
        {
            let _ = &$s;
            kani::cover!(pv_c, $l);
        }
        #[cfg(not(kani))]
        {
            if pv_c {
                $s.covered($l);
            }
        }
    }};
}

/// Heap-free UTF-8 string under construction (valid by construction).
#[allow(dead_code)]
pub struct SBuf<const B: usize> {
    pub b: [u8; B],
    pub len: usize,
}

#[allow(dead_code)]
impl<const B: usize> SBuf<B> {
    pub fn new() -> Self {
        SBuf { b: [0u8; B], len: 0 }
    }
    pub fn push(&mut self, c: char) {
        let v = c as u32;
        let l = self.len;
        if v < 0x80 {
            self.b[l] = v as u8;
            self.len = l + 1;
        } else if v < 0x800 {
            self.b[l] = 0xC0 | (v >> 6) as u8;
            self.b[l + 1] = 0x80 | (v & 0x3F) as u8;
            self.len = l + 2;
        } else if v < 0x10000 {
            self.b[l] = 0xE0 | (v >> 12) as u8;
            self.b[l + 1] = 0x80 | ((v >> 6) & 0x3F) as u8;
            self.b[l + 2] = 0x80 | (v & 0x3F) as u8;
            self.len = l + 3;
        } else {
            self.b[l] = 0xF0 | (v >> 18) as u8;
            self.b[l + 1] = 0x80 | ((v >> 12) & 0x3F) as u8;
            self.b[l + 2] = 0x80 | ((v >> 6) & 0x3F) as u8;
            self.b[l + 3] = 0x80 | (v & 0x3F) as u8;
            self.len = l + 4;
        }
    }
    pub fn as_str(&self) -> &str {
        unsafe { core::str::from_utf8_unchecked(&self.b[..self.len]) }
    }
}

/// A symbolic string of at most N characters: the characters and the length.
#[allow(dead_code)]
pub struct SymStr<const N: usize> {
    pub cs: [char; N],
    pub n: usize,
}

#[allow(dead_code)]
impl<const N: usize> SymStr<N> {
    /// length any of 0..=N, every character any scalar value
    pub fn any<S: Src>(s: &mut S) -> Self {
        let n = s.below(N + 1);
        let mut cs = ['\0'; N];
        let mut i = 0;
        while i < N {
            cs[i] = s.ch();
            i += 1;
        }
        SymStr { cs, n }
    }
    /// exactly N characters, every character any scalar value
    pub fn exact<S: Src>(s: &mut S) -> Self {
        let mut cs = ['\0'; N];
        let mut i = 0;
        while i < N {
            cs[i] = s.ch();
            i += 1;
        }
        SymStr { cs, n: N }
    }
    /// characters drawn from an alphabet (symbolic index)
    pub fn from_alphabet<S: Src>(s: &mut S, sigma: &[char]) -> Self {
        let n = s.below(N + 1);
        let mut cs = ['\0'; N];
        let mut i = 0;
        while i < N {
            let k = s.below(sigma.len());
            cs[i] = sigma[k];
            i += 1;
        }
        SymStr { cs, n }
    }
    pub fn fill<const B: usize>(&self, buf: &mut SBuf<B>) {
        let mut i = 0;
        while i < N {
            if i < self.n {
                buf.push(self.cs[i]);
            }
            i += 1;
        }
    }
}

/// Decode the characters of `s` into a fixed array; returns the count (at most M, else M+1).
#[allow(dead_code)]
pub fn decode<const M: usize>(s: &str, out: &mut [char; M]) -> usize {
    let mut k = 0;
    for c in s.chars() {
        if k >= M {
            return M + 1;
        }
        out[k] = c;
        k += 1;
    }
    k
}

/// element-wise equality with an explicit (N-bounded) loop, so that no memcmp unwinding is needed
#[allow(dead_code)]
pub fn eq_chars<const M: usize>(a: &[char; M], b: &[char; M]) -> bool {
    let mut i = 0;
    let mut r = true;
    while i < M {
        if a[i] != b[i] {
            r = false;
        }
        i += 1;
    }
    r
}
