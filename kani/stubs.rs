// Stub library (Kani only).  Every stub is part of the claim of the harnesses that use it and is
// listed in their evidence.  Failing a `MODEL:` assertion makes a run inconclusive, never a violation.

/// Fixed capacity of every modelled `String` (S-STR).
pub const CAP: usize = 40;

// ---- S-STR ---------------------------------------------------------------------------------
pub fn s_new() -> String {
    String::with_capacity(CAP)
}

pub fn s_reserve(s: &mut String, add: usize) {
    assert!(s.len() <= CAP && add <= CAP - s.len(), "MODEL: string capacity");
}

pub fn s_push(s: &mut String, c: char) {
    let v = c as u32;
    unsafe {
        let vec = s.as_mut_vec();
        let len = vec.len();
        assert!(len + 4 <= vec.capacity(), "MODEL: string capacity");
        let p = vec.as_mut_ptr().add(len);
        if v < 0x80 {
            *p = v as u8;
            vec.set_len(len + 1);
        } else if v < 0x800 {
            *p = 0xC0 | (v >> 6) as u8;
            *p.add(1) = 0x80 | (v & 0x3F) as u8;
            vec.set_len(len + 2);
        } else if v < 0x10000 {
            *p = 0xE0 | (v >> 12) as u8;
            *p.add(1) = 0x80 | ((v >> 6) & 0x3F) as u8;
            *p.add(2) = 0x80 | (v & 0x3F) as u8;
            vec.set_len(len + 3);
        } else {
            *p = 0xF0 | (v >> 18) as u8;
            *p.add(1) = 0x80 | ((v >> 12) & 0x3F) as u8;
            *p.add(2) = 0x80 | ((v >> 6) & 0x3F) as u8;
            *p.add(3) = 0x80 | (v & 0x3F) as u8;
            vec.set_len(len + 4);
        }
    }
}

pub fn s_from<'a>(x: &'a str) -> String
where
    'a: 'a,
{
    let mut r = String::with_capacity(CAP);
    assert!(x.len() <= CAP, "MODEL: string capacity");
    unsafe {
        let v = r.as_mut_vec();
        core::ptr::copy_nonoverlapping(x.as_ptr(), v.as_mut_ptr(), x.len());
        v.set_len(x.len());
    }
    r
}

pub fn s_to_owned(x: &str) -> String {
    s_from(x)
}

// ---- S-FMT ---------------------------------------------------------------------------------
pub fn s_format(_args: core::fmt::Arguments<'_>) -> String {
    String::new()
}

// ---- S-ONCE --------------------------------------------------------------------------------
pub fn s_call_once<F: FnOnce()>(_o: &std::sync::Once, f: F) {
    f()
}

// ---- S-CASE: std case tables replaced by a model on the witness alphabet SIGMA_CASE -----------------
// (validated against the real std functions on every witness by harness c10_model_valid)
pub fn st_to_lower(c: char) -> [char; 3] {
    match super::oracle::case_to_lower(c) {
        Some(a) => a,
        None => {
            assert!(false, "MODEL: character outside the case-mapping witness alphabet");
            [c, '\0', '\0']
        }
    }
}

pub fn st_lowercase_lookup(c: char) -> bool {
    match super::oracle::case_is_lowercase(c) {
        Some(b) => b,
        None => {
            assert!(false, "MODEL: character outside the case-mapping witness alphabet");
            false
        }
    }
}

fn case_pred(v: Option<bool>) -> bool {
    match v {
        Some(b) => b,
        None => {
            assert!(false, "MODEL: character outside the case-mapping witness alphabet");
            false
        }
    }
}
/// reachable only from a changed implementation (e.g. str::to_lowercase's Final_Sigma rule)
pub fn st_uppercase_lookup(c: char) -> bool { case_pred(super::oracle::case_is_upper(c)) }
pub fn st_lt_lookup(c: char) -> bool { case_pred(super::oracle::case_is_lt(c)) }
pub fn st_case_ignorable_lookup(c: char) -> bool { case_pred(super::oracle::case_is_ignorable(c)) }

// ---- S-WIDTH: the width table lookup replaced by the oracle function (Layer A: c11_width_one) ---------
pub fn st_width(cp: u32) -> Option<u32> {
    let m = super::oracle::width_map(cp);
    if m == 0 {
        None
    } else {
        Some(m)
    }
}

// ---- S-COMPAT: precis_core::common::has_compat = oracle HasCompat set (cross-checked by gen.py against the real
// unicode-normalization crate on every code point assigned in 6.3.0) ------------------------------------------
pub fn st_has_compat(cp: u32) -> bool {
    super::oracle::has_compat(cp)
}

// ---- S-PRED: every table predicate of precis_core::common returns an arbitrary, fixed outcome -----------------
// (the predicates are pure functions of the code point; a harness that evaluates ONE code point may therefore
// replace them by solver-chosen constants: it then holds for any table contents)
#[derive(Clone, Copy)]
pub struct Preds {
    pub exception: Option<precis_core::DerivedPropertyValue>,
    pub backward: Option<precis_core::DerivedPropertyValue>,
    pub unassigned: bool,
    pub ascii7: bool,
    pub join_control: bool,
    pub old_hangul_jamo: bool,
    pub ignorable: bool,
    pub control: bool,
    pub has_compat: bool,
    pub letter_digit: bool,
    pub other_letter_digit: bool,
    pub space: bool,
    pub symbol: bool,
    pub punctuation: bool,
}
static mut PREDS: Preds = Preds {
    exception: None, backward: None, unassigned: false, ascii7: false, join_control: false, old_hangul_jamo: false,
    ignorable: false, control: false, has_compat: false, letter_digit: false, other_letter_digit: false, space: false,
    symbol: false, punctuation: false,
};
static TABLE_VALUES: [precis_core::DerivedPropertyValue; 5] = [
    precis_core::DerivedPropertyValue::PValid,
    precis_core::DerivedPropertyValue::ContextJ,
    precis_core::DerivedPropertyValue::ContextO,
    precis_core::DerivedPropertyValue::Disallowed,
    precis_core::DerivedPropertyValue::Unassigned,
];
static mut EXC_IDX: usize = 0;
static mut BWD_IDX: usize = 0;

pub fn pred_init<S: super::sup::Src>(s: &mut S) {
    // values an Exceptions / BackwardCompatible table can hold: class-independent ones
    let e = s.below(6);
    let b = s.below(6);
    let p = Preds {
        exception: if e < 5 { Some(TABLE_VALUES[e]) } else { None },
        backward: if b < 5 { Some(TABLE_VALUES[b]) } else { None },
        unassigned: s.bool(), ascii7: s.bool(), join_control: s.bool(), old_hangul_jamo: s.bool(), ignorable: s.bool(),
        control: s.bool(), has_compat: s.bool(), letter_digit: s.bool(), other_letter_digit: s.bool(), space: s.bool(),
        symbol: s.bool(), punctuation: s.bool(),
    };
    unsafe {
        PREDS = p;
        EXC_IDX = e;
        BWD_IDX = b;
    }
}
pub fn pred_snapshot() -> Preds {
    unsafe { PREDS }
}
pub fn sp_exception(_cp: u32) -> Option<&'static precis_core::DerivedPropertyValue> {
    unsafe { if EXC_IDX < 5 { Some(&TABLE_VALUES[EXC_IDX]) } else { None } }
}
pub fn sp_backward(_cp: u32) -> Option<&'static precis_core::DerivedPropertyValue> {
    unsafe { if BWD_IDX < 5 { Some(&TABLE_VALUES[BWD_IDX]) } else { None } }
}
pub fn sp_unassigned(_cp: u32) -> bool { unsafe { PREDS.unassigned } }
pub fn sp_ascii7(_cp: u32) -> bool { unsafe { PREDS.ascii7 } }
pub fn sp_join_control(_cp: u32) -> bool { unsafe { PREDS.join_control } }
pub fn sp_old_hangul_jamo(_cp: u32) -> bool { unsafe { PREDS.old_hangul_jamo } }
pub fn sp_ignorable(_cp: u32) -> bool { unsafe { PREDS.ignorable } }
pub fn sp_control(_cp: u32) -> bool { unsafe { PREDS.control } }
pub fn sp_has_compat(_cp: u32) -> bool { unsafe { PREDS.has_compat } }
pub fn sp_letter_digit(_cp: u32) -> bool { unsafe { PREDS.letter_digit } }
pub fn sp_other_letter_digit(_cp: u32) -> bool { unsafe { PREDS.other_letter_digit } }
pub fn sp_space(_cp: u32) -> bool { unsafe { PREDS.space } }
pub fn sp_symbol(_cp: u32) -> bool { unsafe { PREDS.symbol } }
pub fn sp_punctuation(_cp: u32) -> bool { unsafe { PREDS.punctuation } }

pub fn pred_set_all_false(punct: bool) {
    unsafe {
        PREDS = Preds {
            exception: None, backward: None, unassigned: false, ascii7: false, join_control: false, old_hangul_jamo: false,
            ignorable: false, control: false, has_compat: false, letter_digit: false, other_letter_digit: false, space: false,
            symbol: false, punctuation: punct,
        };
        EXC_IDX = 5;
        BWD_IDX = 5;
    }
}

// ---- S-CTX: the context table predicates = oracle functions (Layer A: c03_nb_* harnesses) ---------------------
fn ctx(cp: u32, bit: u16) -> bool {
    super::oracle::ctx_mask(cp) & bit != 0
}
pub fn sc_virama(cp: u32) -> bool { ctx(cp, super::oracle::CTX_VIRAMA) }
pub fn sc_greek(cp: u32) -> bool { ctx(cp, super::oracle::CTX_GREEK) }
pub fn sc_hebrew(cp: u32) -> bool { ctx(cp, super::oracle::CTX_HEBREW) }
pub fn sc_hiragana(cp: u32) -> bool { ctx(cp, super::oracle::CTX_HIRAGANA) }
pub fn sc_katakana(cp: u32) -> bool { ctx(cp, super::oracle::CTX_KATAKANA) }
pub fn sc_han(cp: u32) -> bool { ctx(cp, super::oracle::CTX_HAN) }
pub fn sc_dual(cp: u32) -> bool { ctx(cp, super::oracle::CTX_JT_D) }
pub fn sc_left(cp: u32) -> bool { ctx(cp, super::oracle::CTX_JT_L) }
pub fn sc_right(cp: u32) -> bool { ctx(cp, super::oracle::CTX_JT_R) }
pub fn sc_transparent(cp: u32) -> bool { ctx(cp, super::oracle::CTX_JT_T) }

// ---- S-DPV: stringclasses::get_derived_property_value = the oracle decision list (discharged by C14) -----------
pub fn st_dpv(cp: u32, obj: &dyn precis_core::stringclasses::SpecificDerivedPropertyValue) -> precis_core::DerivedPropertyValue {
    use precis_core::DerivedPropertyValue::*;
    let e = super::oracle::exception_val(cp);
    if e != 255 {
        return super::c14::dpv_of(e);
    }
    let m = super::oracle::pred_mask(cp);
    if m & 1 != 0 {
        Unassigned
    } else if m & 2 != 0 {
        PValid
    } else if m & 4 != 0 {
        ContextJ
    } else if m & (8 | 16 | 32) != 0 {
        Disallowed
    } else if m & 64 != 0 {
        obj.on_has_compat()
    } else if m & 128 != 0 {
        PValid
    } else if m & 256 != 0 {
        obj.on_other_letter_digits()
    } else if m & 512 != 0 {
        obj.on_spaces()
    } else if m & 1024 != 0 {
        obj.on_symbols()
    } else if m & 2048 != 0 {
        obj.on_punctuation()
    } else {
        Disallowed
    }
}

// ---- S-RULE: an arbitrary rule registry with arbitrary rule outcomes (harness c02_any_class) -------------------
// get_context_rule(cp) = Some(fake rule) iff the solver-chosen flag of that character is set; the fake rule's
// outcome is a solver-chosen function of the offset.  allows()/allowed_by_context_rule run unchanged.
pub static mut ANY_CS: [u32; 8] = [0; 8];
pub static mut ANY_HAS_RULE: [bool; 8] = [false; 8];
pub static mut ANY_OUT: [u8; 8] = [0; 8];
pub fn fake_rule(_s: &str, off: usize) -> Result<bool, precis_core::context::ContextRuleError> {
    let o = unsafe { if off < 8 { ANY_OUT[off] } else { 3 } };
    match o {
        0 => Ok(true),
        1 => Ok(false),
        2 => Err(precis_core::context::ContextRuleError::NotApplicable),
        _ => Err(precis_core::context::ContextRuleError::Undefined),
    }
}
pub fn sr_get_rule(cp: u32) -> Option<precis_core::context::ContextRule> {
    let mut i = 0;
    while i < 8 {
        if unsafe { ANY_CS[i] } == cp {
            return if unsafe { ANY_HAS_RULE[i] } { Some(fake_rule) } else { None };
        }
        i += 1;
    }
    None
}

// ---- S-ADV: Chars::advance_by (the chunked, pointer-heavy std implementation behind `chars().nth(k)`) replaced by
// the defining loop over next(); same result for every iterator state and count.
pub fn s_advance_by<'a>(it: &mut core::str::Chars<'a>, n: usize) -> Result<(), core::num::NonZero<usize>>
where
    'a: 'a,
{
    let mut i = 0usize;
    while i < n {
        if it.next().is_none() {
            return Err(core::num::NonZero::new(n - i).unwrap());
        }
        i += 1;
    }
    Ok(())
}

// ---- S-CHARS: <Chars as Iterator>::next (std: raw-pointer slice iterator + next_code_point) replaced by an equivalent
// decoder that indexes the remaining bytes; the input is a &str, hence valid UTF-8, and the decoder is the inverse of
// the encoder used everywhere else.  Cuts Kani's per-pointer-operation instrumentation out of every character loop.
pub fn s_chars_next<'a>(it: &mut core::str::Chars<'a>) -> Option<char>
where
    'a: 'a,
{
    let s: &'a str = it.as_str();
    let b = s.as_bytes();
    if b.len() == 0 {
        return None;
    }
    let b0 = b[0] as u32;
    let (v, n) = if b0 < 0x80 {
        (b0, 1usize)
    } else if b0 < 0xE0 {
        (((b0 & 0x1F) << 6) | (b[1] as u32 & 0x3F), 2)
    } else if b0 < 0xF0 {
        (((b0 & 0x0F) << 12) | ((b[1] as u32 & 0x3F) << 6) | (b[2] as u32 & 0x3F), 3)
    } else {
        (((b0 & 0x07) << 18) | ((b[1] as u32 & 0x3F) << 12) | ((b[2] as u32 & 0x3F) << 6) | (b[3] as u32 & 0x3F), 4)
    };
    let rest: &'a str = unsafe { core::str::from_utf8_unchecked(&b[n..]) };
    *it = rest.chars();
    Some(unsafe { char::from_u32_unchecked(v) })
}

// ---- S-PREDO: every table predicate = the oracle predicate of the code point (pred_mask / exception_val trees).
// Unlike S-PRED the outcomes are those of the real 6.3.0 data (C14 Layer A), so counterexamples replay natively.
static TABLE_VALUES_ALL: [precis_core::DerivedPropertyValue; 7] = [
    precis_core::DerivedPropertyValue::PValid,
    precis_core::DerivedPropertyValue::SpecClassPval,
    precis_core::DerivedPropertyValue::SpecClassDis,
    precis_core::DerivedPropertyValue::ContextJ,
    precis_core::DerivedPropertyValue::ContextO,
    precis_core::DerivedPropertyValue::Disallowed,
    precis_core::DerivedPropertyValue::Unassigned,
];
static mut SO_CP: u32 = 0;
static mut SO_MASK: u16 = 0;
static mut SO_EXC: u8 = 255;
/// the harness evaluates the oracle ONCE for its code point; the stubs read the cached value
pub fn predo_set(cp: u32) {
    unsafe {
        SO_CP = cp;
        SO_MASK = super::oracle::pred_mask(cp);
        SO_EXC = super::oracle::exception_val(cp);
    }
}
pub fn so_exception(cp: u32) -> Option<&'static precis_core::DerivedPropertyValue> {
    assert!(cp == unsafe { SO_CP }, "MODEL: S-PREDO used for another code point than the cached one");
    let e = unsafe { SO_EXC };
    if e == 255 {
        None
    } else {
        Some(&TABLE_VALUES_ALL[e as usize])
    }
}
pub fn so_backward(_cp: u32) -> Option<&'static precis_core::DerivedPropertyValue> {
    None
}
fn so_bit(cp: u32, bit: u16) -> bool {
    assert!(cp == unsafe { SO_CP }, "MODEL: S-PREDO used for another code point than the cached one");
    unsafe { SO_MASK & bit != 0 }
}
pub fn so_unassigned(cp: u32) -> bool { so_bit(cp, 1) }
pub fn so_ascii7(cp: u32) -> bool { so_bit(cp, 2) }
pub fn so_join_control(cp: u32) -> bool { so_bit(cp, 4) }
pub fn so_old_hangul_jamo(cp: u32) -> bool { so_bit(cp, 8) }
pub fn so_ignorable(cp: u32) -> bool { so_bit(cp, 16) }
pub fn so_control(cp: u32) -> bool { so_bit(cp, 32) }
pub fn so_has_compat(cp: u32) -> bool { so_bit(cp, 64) }
pub fn so_letter_digit(cp: u32) -> bool { so_bit(cp, 128) }
pub fn so_other_letter_digit(cp: u32) -> bool { so_bit(cp, 256) }
pub fn so_space(cp: u32) -> bool { so_bit(cp, 512) }
pub fn so_symbol(cp: u32) -> bool { so_bit(cp, 1024) }
pub fn so_punctuation(cp: u32) -> bool { so_bit(cp, 2048) }

// ---- S-COUNT: <Chars as Iterator>::count (std: chunked word-at-a-time counter) replaced by the defining loop
pub fn s_chars_count<'a>(it: core::str::Chars<'a>) -> usize
where
    'a: 'a,
{
    let mut it = it;
    let mut n = 0usize;
    while it.next().is_some() {
        n += 1;
    }
    n
}

// ---- S-RULESPEC: the REAL registry shape, with each rule replaced by its RFC 5892 specification evaluated on the
// label's character array (published by the harness in ANY_CS / ANY_N).  Cheap, and -- unlike S-RULE -- every
// scenario exists on the real code (C03 decides rule == specification), so counterexamples replay natively.
pub static mut ANY_N: usize = 0;
/// context predicate mask of each label character, computed once by the harness
pub static mut ANY_MASK: [u16; 8] = [0; 8];
type RuleR = Result<bool, precis_core::context::ContextRuleError>;
fn rs_at(off: usize) -> Option<u32> {
    unsafe {
        if off < ANY_N && off < 8 {
            Some(ANY_CS[off])
        } else {
            None
        }
    }
}
fn rs_mask(off: usize) -> u16 {
    unsafe {
        if off < ANY_N && off < 8 {
            ANY_MASK[off]
        } else {
            0
        }
    }
}
fn rs_own(off: usize, lo: u32, hi: u32) -> Result<u32, precis_core::context::ContextRuleError> {
    match rs_at(off) {
        None => Err(precis_core::context::ContextRuleError::Undefined),
        Some(c) => {
            if lo <= c && c <= hi {
                Ok(c)
            } else {
                Err(precis_core::context::ContextRuleError::NotApplicable)
            }
        }
    }
}
pub fn rs_zwj(_s: &str, off: usize) -> RuleR {
    rs_own(off, 0x200d, 0x200d)?;
    if off == 0 {
        return Err(precis_core::context::ContextRuleError::Undefined);
    }
    Ok(rs_mask(off - 1) & super::oracle::CTX_VIRAMA != 0)
}
pub fn rs_middle_dot(_s: &str, off: usize) -> RuleR {
    rs_own(off, 0xb7, 0xb7)?;
    if off == 0 {
        return Err(precis_core::context::ContextRuleError::Undefined);
    }
    match rs_at(off + 1) {
        None => Err(precis_core::context::ContextRuleError::Undefined),
        Some(n) => Ok(rs_at(off - 1) == Some(0x6c) && n == 0x6c),
    }
}
pub fn rs_keraia(_s: &str, off: usize) -> RuleR {
    rs_own(off, 0x375, 0x375)?;
    match rs_at(off + 1) {
        None => Err(precis_core::context::ContextRuleError::Undefined),
        Some(_) => Ok(rs_mask(off + 1) & super::oracle::CTX_GREEK != 0),
    }
}
pub fn rs_hebrew(_s: &str, off: usize) -> RuleR {
    rs_own(off, 0x5f3, 0x5f4)?;
    if off == 0 {
        return Err(precis_core::context::ContextRuleError::Undefined);
    }
    Ok(rs_mask(off - 1) & super::oracle::CTX_HEBREW != 0)
}
fn rs_any(lo: u32, hi: u32, mask: u16) -> bool {
    let mut i = 0;
    let mut r = false;
    while i < 8 {
        if let Some(c) = rs_at(i) {
            if (mask == 0 && lo <= c && c <= hi) || (mask != 0 && rs_mask(i) & mask != 0) {
                r = true;
            }
        }
        i += 1;
    }
    r
}
pub fn rs_katakana(_s: &str, off: usize) -> RuleR {
    rs_own(off, 0x30fb, 0x30fb)?;
    Ok(rs_any(0, 0, super::oracle::CTX_HIRAGANA | super::oracle::CTX_KATAKANA | super::oracle::CTX_HAN))
}
pub fn rs_arabic(_s: &str, off: usize) -> RuleR {
    rs_own(off, 0x660, 0x669)?;
    Ok(!rs_any(0x6f0, 0x6f9, 0))
}
pub fn rs_ext_arabic(_s: &str, off: usize) -> RuleR {
    rs_own(off, 0x6f0, 0x6f9)?;
    Ok(!rs_any(0x660, 0x669, 0))
}
/// the real registry's shape (ZWNJ is left out: labels of this harness never contain U+200C)
pub fn sr_get_rule_spec(cp: u32) -> Option<precis_core::context::ContextRule> {
    match cp {
        0x00b7 => Some(rs_middle_dot),
        0x200d => Some(rs_zwj),
        0x0375 => Some(rs_keraia),
        0x05f3 | 0x05f4 => Some(rs_hebrew),
        0x30fb => Some(rs_katakana),
        0x0660..=0x0669 => Some(rs_arabic),
        0x06f0..=0x06f9 => Some(rs_ext_arabic),
        _ => None,
    }
}
