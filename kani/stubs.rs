// Stub library (Kani only).  Every stub is part of the claim of the harnesses that use it and is
// listed in their evidence.  Failing a `MODEL:` assertion makes a run inconclusive, never a violation.

/// Fixed capacity of every modelled `String` (S-STR).
pub const CAP: usize = 40;

// ---- S-STR ---------------------------------------------------------------------------------
pub fn s_new() -> String {
    String::with_capacity(CAP)
}

pub fn s_reserve(s: &mut String, add: usize) {
    assert!(s.len() <= CAP && add <= CAP - s.len(), "MODEL: string capacity");
}

pub fn s_push(s: &mut String, c: char) {
    let v = c as u32;
    unsafe {
        let vec = s.as_mut_vec();
        let len = vec.len();
        assert!(len + 4 <= vec.capacity(), "MODEL: string capacity");
        let p = vec.as_mut_ptr().add(len);
        if v < 0x80 {
            *p = v as u8;
            vec.set_len(len + 1);
        } else if v < 0x800 {
            *p = 0xC0 | (v >> 6) as u8;
            *p.add(1) = 0x80 | (v & 0x3F) as u8;
            vec.set_len(len + 2);
        } else if v < 0x10000 {
            *p = 0xE0 | (v >> 12) as u8;
            *p.add(1) = 0x80 | ((v >> 6) & 0x3F) as u8;
            *p.add(2) = 0x80 | (v & 0x3F) as u8;
            vec.set_len(len + 3);
        } else {
            *p = 0xF0 | (v >> 18) as u8;
            *p.add(1) = 0x80 | ((v >> 12) & 0x3F) as u8;
            *p.add(2) = 0x80 | ((v >> 6) & 0x3F) as u8;
            *p.add(3) = 0x80 | (v & 0x3F) as u8;
            vec.set_len(len + 4);
        }
    }
}

pub fn s_from<'a>(x: &'a str) -> String
where
    'a: 'a,
{
    let mut r = String::with_capacity(CAP);
    assert!(x.len() <= CAP, "MODEL: string capacity");
    unsafe {
        let v = r.as_mut_vec();
        core::ptr::copy_nonoverlapping(x.as_ptr(), v.as_mut_ptr(), x.len());
        v.set_len(x.len());
    }
    r
}

pub fn s_to_owned(x: &str) -> String {
    s_from(x)
}

// ---- S-FMT ---------------------------------------------------------------------------------
pub fn s_format(_args: core::fmt::Arguments<'_>) -> String {
    String::new()
}

// ---- S-ONCE --------------------------------------------------------------------------------
pub fn s_call_once<F: FnOnce()>(_o: &std::sync::Once, f: F) {
    f()
}

// ---- S-CASE: std case tables replaced by a model on the witness alphabet SIGMA_CASE -----------------
// (validated against the real std functions on every witness by harness c10_model_valid)
pub fn st_to_lower(c: char) -> [char; 3] {
    match crate::oracle::case_to_lower(c) {
        Some(a) => a,
        None => {
            assert!(false, "MODEL: character outside the case-mapping witness alphabet");
            [c, '\0', '\0']
        }
    }
}

pub fn st_lowercase_lookup(c: char) -> bool {
    match crate::oracle::case_is_lowercase(c) {
        Some(b) => b,
        None => {
            assert!(false, "MODEL: character outside the case-mapping witness alphabet");
            false
        }
    }
}

// ---- S-WIDTH: the width table lookup replaced by the oracle function (Layer A: c11_width_one) ---------
pub fn st_width(cp: u32) -> Option<u32> {
    let m = crate::oracle::width_map(cp);
    if m == 0 {
        None
    } else {
        Some(m)
    }
}
