#!/bin/bash
# One-time, offline: generate the oracle tables and pre-build the harness crates' dependencies so
# that the first check does not pay for them.  Every check regenerates/rebuilds what changed anyway.
set -u
cd "$(dirname "$0")"
export CARGO_NET_OFFLINE=true
python3 - <<'PY'
import sys
sys.path.insert(0, '.')
from lib import runner
m = runner.prepare(list(runner.CRATES))
if m is None:
    sys.exit(1)
for c in runner.CRATES:
    if runner.crate_available(c):
        runner.warm(c)
for rel in (False, True):
    runner.native_bin('ext', rel)
print('setup done')
PY
