"""Runner: prepares generated inputs, runs the Kani harnesses of one property in parallel, parses
CBMC's verdicts, replays counterexamples natively, applies known findings, writes evidence."""
import concurrent.futures as cf
import hashlib
import json
import os
import re
import shutil
import signal
import subprocess
import sys
import threading
import time

VERIF = os.path.dirname(os.path.dirname(os.path.abspath(__file__)))
sys.path.insert(0, VERIF)
import harnesses as HR  # noqa: E402

REPO = os.environ.get('PRECIS_REPO', '/repo')
TARGET = os.path.join(VERIF, 'target')
GEN = os.path.join(VERIF, 'build', 'gen')
LOGS = os.path.join(VERIF, 'logs')
REPLAYS = os.path.join(VERIF, 'replays')
EVID = os.environ.get('VERIF_EVIDENCE_DIR') or os.path.join(VERIF, 'evidence')
NATIVE_TOOLCHAIN = os.environ.get('PRECIS_NATIVE_TOOLCHAIN', 'stable')
MEM_BUDGET_GB = int(os.environ.get('VERIF_MEM_GB', '54'))
MAX_PAR = int(os.environ.get('VERIF_JOBS', '14'))

CRATES = {
    'ext': dict(cwd=os.path.join(VERIF, 'kani', 'ext'), args=['--lib'], mod='proofs_ext'),
    'profiles': dict(cwd=REPO, args=['-p', 'precis-profiles', '--lib'], mod='bidi::pv::proofs_profiles'),
    'tools': dict(cwd=REPO, args=['-p', 'precis-tools', '--lib'], mod='generators::ucd_generator::pv::proofs_tools'),
}


def base_env():
    e = dict(os.environ)
    e['PRECIS_VERIF_DIR'] = VERIF
    e['CARGO_NET_OFFLINE'] = 'true'
    e.pop('RUSTFLAGS', None)
    e.pop('CARGO_ENCODED_RUSTFLAGS', None)
    e.pop('RUSTUP_TOOLCHAIN', None)
    return e


def log(msg):
    print(msg, flush=True)


# --------------------------------------------------------------------------------------------
# preparation
# --------------------------------------------------------------------------------------------
def tree_hash(paths):
    h = hashlib.sha256()
    for root in paths:
        if os.path.isfile(root):
            files = [root]
        else:
            files = []
            for d, _, fs in os.walk(root):
                for f in fs:
                    files.append(os.path.join(d, f))
        for f in sorted(files):
            h.update(f.encode())
            with open(f, 'rb') as fh:
                h.update(hashlib.sha256(fh.read()).digest())
    return h.hexdigest()


def known_findings():
    p = os.path.join(VERIF, 'known_findings.json')
    if not os.path.exists(p):
        return {'known': [], 'fixed': []}
    with open(p) as f:
        return json.load(f)


ALL_KF_IDS = ['C09_NSM_INTERIOR', 'C08_CASEMAP_POST63']


def write_if_changed(path, text):
    if os.path.exists(path):
        with open(path) as f:
            if f.read() == text:
                return
    with open(path, 'w') as f:
        f.write(text)


def prepare(crates_needed):
    os.makedirs(GEN, exist_ok=True)
    os.makedirs(LOGS, exist_ok=True)
    os.makedirs(REPLAYS, exist_ok=True)
    os.makedirs(EVID, exist_ok=True)
    t0 = time.time()
    import fcntl
    lockf = open(os.path.join(VERIF, 'build', '.prepare.lock'), 'w')
    fcntl.flock(lockf, fcntl.LOCK_EX)     # concurrent ./check invocations share build/gen
    tmp = GEN + '.tmp.%d' % os.getpid()
    shutil.rmtree(tmp, ignore_errors=True)
    r = subprocess.run([sys.executable, os.path.join(VERIF, 'oracle', 'gen.py'), tmp],
                       env=dict(os.environ, PRECIS_REPO=REPO), capture_output=True, text=True)
    if r.returncode != 0:
        log('oracle generation failed:\n' + r.stdout + r.stderr)
        lockf.close()
        return None
    for f in os.listdir(tmp):
        with open(os.path.join(tmp, f)) as fh:
            write_if_changed(os.path.join(GEN, f), fh.read())
    shutil.rmtree(tmp, ignore_errors=True)
    for c in CRATES:
        write_if_changed(os.path.join(GEN, 'proofs_%s.rs' % c), HR.gen_proofs(c))
    kf = known_findings()
    ids = set(k['id'] for k in kf.get('known', []))
    lines = ['// @generated from /verif/known_findings.json -- do not edit',
             '#[allow(dead_code)]', 'pub mod known {']
    for i in ALL_KF_IDS:
        lines.append('    pub const %s: bool = %s;' % (i, 'true' if i in ids else 'false'))
    lines.append('}')
    write_if_changed(os.path.join(GEN, 'known.rs'), '\n'.join(lines) + '\n')
    with open(os.path.join(GEN, 'oracle_meta.json')) as f:
        meta = json.load(f)
    # The two table-owning crates only declare rerun-if-changed=build.rs: force their rebuild when
    # a UCD resource changed (generator source changes are tracked by cargo itself).
    hsh = tree_hash([os.path.join(REPO, 'precis-core', 'resources'),
                     os.path.join(REPO, 'precis-profiles', 'resources'),
                     os.path.join(REPO, 'precis-tools', 'src', 'generators', 'codepoints.template')])
    for c in list(crates_needed) + ['native']:
        tdir = os.path.join(TARGET, c)
        os.makedirs(tdir, exist_ok=True)
        stamp = os.path.join(tdir, '.resources.sha256')
        old = open(stamp).read() if os.path.exists(stamp) else None
        if old is not None and old != hsh:
            for sub in ('kani', '.'):
                for prof_root, _, _ in os.walk(os.path.join(tdir, sub)):
                    base = os.path.basename(prof_root)
                    if base == 'build' or base == '.fingerprint' or base == 'deps':
                        for ent in os.listdir(prof_root):
                            if ent.startswith('precis-core') or ent.startswith('precis-profiles') or \
                                    ent.startswith('precis_core') or ent.startswith('precis_profiles') or \
                                    ent.startswith('libprecis_core') or ent.startswith('libprecis_profiles'):
                                shutil.rmtree(os.path.join(prof_root, ent), ignore_errors=True)
                                try:
                                    os.unlink(os.path.join(prof_root, ent))
                                except OSError:
                                    pass
        with open(stamp, 'w') as f:
            f.write(hsh)
    meta['prepare_s'] = round(time.time() - t0, 2)
    lockf.close()
    return meta


# --------------------------------------------------------------------------------------------
# running one harness
# --------------------------------------------------------------------------------------------
class Mem:
    def __init__(self, budget):
        self.budget = budget
        self.used = 0
        self.cv = threading.Condition()

    def acquire(self, n):
        with self.cv:
            while self.used + n > self.budget and self.used > 0:
                self.cv.wait()
            self.used += n

    def release(self, n):
        with self.cv:
            self.used -= n
            self.cv.notify_all()


MEM = Mem(MEM_BUDGET_GB)

RE_CHECK = re.compile(r'^Check (\d+): (.+)\n\t - Status: (\w+)\n\t - Description: "(.*)"\n(?:\t - Location: (.*)\n)?', re.M)
RE_PLAY = re.compile(r'Concrete playback unit test for `([^`]+)`:\n```\n(.*?)\n```', re.S)


def kani_cmd(h, tier):
    c = CRATES[h.crate]
    cmd = ['cargo', 'kani'] + c['args'] + ['--target-dir', os.path.join(TARGET, h.crate),
                                           '-Z', 'stubbing', '-Z', 'concrete-playback', '--concrete-playback=print',
                                           '--harness', '%s::%s' % (c['mod'], h.name), '--exact'] + h.kani_flags(tier)
    return cmd, c['cwd']


def resolve_unwindset(h, tier):
    """per-loop unwind bounds: codegen only, list the loops of the harness' goto binary, match the
    registry's patterns; returns (extra kani args, description) or (None, reason)"""
    import glob
    cmd, cwd = kani_cmd(h, tier)
    r = subprocess.run(cmd + ['--only-codegen'], cwd=cwd, env=base_env(), capture_output=True, text=True)
    pat = os.path.join(TARGET, h.crate, 'kani', '*', 'debug', 'build', '*', '*', 'out', '*%d%s.out' % (len(h.name), h.name))
    outs = sorted(glob.glob(pat), key=os.path.getmtime)
    if r.returncode != 0 or not outs:
        return None, 'codegen failed or goto binary not found:\n' + (r.stdout + r.stderr)[-3000:]
    sl = subprocess.run(['cbmc', '--show-loops', outs[-1]], capture_output=True, text=True)
    loops = re.findall(r'^Loop (\S+):$', sl.stdout, re.M)
    sets = []
    used = set()
    for loop in loops:
        for i, (rx, n) in enumerate(h.unwindset):
            if re.search(rx, loop):
                sets.append('%s:%d' % (loop, n))
                used.add(i)
                break
    missing = [h.unwindset[i][0] for i in range(len(h.unwindset)) if i not in used]
    # a pattern that matches nothing is not fatal: those loops keep the #[kani::unwind] default and the
    # unwinding assertions (always on) report a bound that is too small as inconclusive
    if not sets:
        return [], ''
    return ['--cbmc-args', '--unwindset', ','.join(sets)], '; '.join('%s -> %d' % (rx, n) for rx, n in h.unwindset)


def run_harness(h, tier, timeout_scale=1.0):
    cmd, cwd = kani_cmd(h, tier)
    if h.unwindset:
        extra, why = resolve_unwindset(h, tier)
        if extra is None:
            logp = os.path.join(LOGS, '%s.%s.log' % (h.name, tier))
            with open(logp, 'w') as f:
                f.write(why)
            res = parse_log('')
            res.update(name=h.name, rc=2, timed_out=False, wall_s=0.0, log=logp, timeout=0)
            return res
        if '-Z' not in cmd[cmd.index('--exact'):]:
            cmd += ['-Z', 'unstable-options']
        cmd += extra
    timeout = int(h.timeout * timeout_scale)
    logp = os.path.join(LOGS, '%s.%s.log' % (h.name, tier))
    MEM.acquire(h.mem_gb)
    t0 = time.time()
    try:
        # address-space limit = budget + 25 %: budgets are 1.5 x a measured peak RSS + 3 GB, but the peak moves by a few GB between
        # runs and virtual size exceeds RSS; the scheduler still accounts the plain budget
        shell = 'ulimit -v %d; exec /usr/bin/time -f PV_MAXRSS_KB=%%M "$@"' % int(h.mem_gb * 1.25 * 1024 * 1024)
        with open(logp, 'wb') as lf:
            p = subprocess.Popen(['bash', '-c', shell, 'bash'] + cmd, cwd=cwd, env=base_env(), stdout=lf,
                                 stderr=subprocess.STDOUT, start_new_session=True)
            try:
                rc = p.wait(timeout=timeout)
                timed_out = False
            except subprocess.TimeoutExpired:
                timed_out = True
                try:
                    os.killpg(p.pid, signal.SIGKILL)
                except ProcessLookupError:
                    pass
                rc = p.wait()
    finally:
        MEM.release(h.mem_gb)
    wall = time.time() - t0
    with open(logp, 'rb') as f:
        text = f.read().decode('utf-8', 'replace')
    res = parse_log(text)
    res.update(name=h.name, rc=rc, timed_out=timed_out, wall_s=round(wall, 2), log=logp, timeout=timeout)
    return res


def parse_log(text):
    checks = []
    for m in RE_CHECK.finditer(text):
        checks.append(dict(n=int(m.group(1)), id=m.group(2), status=m.group(3), desc=m.group(4).strip('"'), loc=m.group(5) or ''))
    res = {'checks': checks}
    m = re.search(r'VERIFICATION:- (\w+)', text)
    res['verdict'] = m.group(1) if m else None
    m = re.search(r'Verification Time: ([\d.]+)s', text)
    res['kani_time_s'] = float(m.group(1)) if m else None
    res['solver_s'] = round(sum(float(x) for x in re.findall(r'Runtime decision procedure: ([\d.e+-]+)s', text)), 3)
    res['symex_s'] = round(sum(float(x) for x in re.findall(r'Runtime Symex: ([\d.e+-]+)s', text)), 3)
    res['sat_calls'] = len(re.findall(r'Runtime decision procedure:', text))
    vc = re.findall(r'(\d+) variables, (\d+) clauses', text)
    res['sat_vars'] = max([int(a) for a, _ in vc], default=0)
    res['sat_clauses'] = max([int(b) for _, b in vc], default=0)
    m = re.search(r'PV_MAXRSS_KB=(\d+)', text)
    res['max_rss_mb'] = int(m.group(1)) // 1024 if m else None
    res['stubs_applied'] = sorted(set(re.findall(r' - Stub: (.*)', text)))
    res['cbmc_error'] = bool(re.search(r'Status: ERROR|CBMC failed|CBMC appears to have run out of memory|std::bad_alloc|Out of memory', text))
    res['compile_error'] = bool(re.search(r'^error(\[E\d+\])?:', text, re.M)) and not checks
    plays = []
    for m in RE_PLAY.finditer(text):
        body = m.group(2)
        km = re.search(r'Check for `(\w+)`: "(.*)"', body)
        kind, what = (km.group(1), km.group(2).strip('"')) if km else ('?', '?')
        vals = []
        for vm in re.finditer(r'^\s*vec!\[([\d, ]*)\],?\s*$', body, re.M):
            s = vm.group(1).strip()
            vals.append([int(x) for x in s.split(',')] if s else [])
        plays.append(dict(kind=kind, what=what, vals=vals))
    res['plays'] = plays
    return res


def classify_check(c):
    """kind of a non-cover check by its description/id"""
    d = c['desc']
    if d.startswith('PV:'):
        return 'property'
    if d.startswith('MODEL:'):
        return 'model'
    if c['id'].endswith('.unwind.0') or '.unwind.' in c['id'] or d.startswith('unwinding assertion'):
        return 'unwind'
    if 'unsupported_construct' in c['id'] or 'is not currently supported by Kani' in d:
        return 'unsupported'
    return 'safety'   # panic, overflow, index, unwrap, pointer checks of the real code


# --------------------------------------------------------------------------------------------
# native replay
# --------------------------------------------------------------------------------------------
_native_lock = threading.Lock()
_native_built = {}


def native_bin(crate, release):
    """build (once per run) and return the path of the native replay binary for a harness crate"""
    key = (crate, release)
    with _native_lock:
        if key in _native_built:
            return _native_built[key]
        tdir = os.path.join(TARGET, 'native')
        env = base_env()
        env['RUSTUP_TOOLCHAIN'] = NATIVE_TOOLCHAIN
        env['RUSTFLAGS'] = '--cfg precis_verif'
        cmd = ['cargo', 'build', '--offline', '--target-dir', tdir, '--manifest-path',
               os.path.join(VERIF, 'kani', 'replay', 'Cargo.toml'), '--bin', 'replay']
        if release:
            cmd.append('--release')
        r = subprocess.run(cmd, env=env, capture_output=True, text=True)
        if r.returncode != 0:
            log('native replay build failed:\n' + r.stderr[-4000:])
            _native_built[key] = None
        else:
            _native_built[key] = os.path.join(tdir, 'release' if release else 'debug', 'replay')
        return _native_built[key]


def hexvals(vals):
    return ','.join(''.join('%02x' % b for b in v) for v in vals)


def native_replay(h, vals):
    """returns dict(profile -> (rc, output)); rc 1 = reproduced, 0 = not, 2 = invalid"""
    out = {}
    for release in (False, True):
        b = native_bin(h.crate, release)
        prof = 'release' if release else 'dev'
        if b is None:
            out[prof] = (2, 'native build failed')
            continue
        try:
            r = subprocess.run([b, h.crate, h.name, hexvals(vals)], capture_output=True, text=True, timeout=120)
            out[prof] = (r.returncode, (r.stdout + r.stderr)[-3000:])
        except subprocess.TimeoutExpired:
            out[prof] = (2, 'native replay timed out')
    return out


# --------------------------------------------------------------------------------------------
# main
# --------------------------------------------------------------------------------------------
def load_property(pid):
    with open(os.path.join(VERIF, 'properties.jsonl')) as f:
        for line in f:
            p = json.loads(line)
            if p['id'] == pid:
                return p
    return None


def do_replay(path):
    with open(path) as f:
        rp = json.load(f)
    h = HR.by_name(rp['harness'])
    if h is None:
        log('unknown harness in replay file')
        return 2
    if prepare([h.crate]) is None:
        return 2
    res = native_replay(h, rp['vals'])
    worst = 0
    for prof, (rc, out) in res.items():
        log('--- native replay (%s profile): exit %d' % (prof, rc))
        log(out.strip())
        if rc == 1:
            worst = 1
        elif rc == 2 and worst == 0:
            worst = 2
    if worst == 1:
        log('VIOLATION property=%s replay=%s' % (rp['property'], path))
    return worst


def main(argv):
    import argparse
    ap = argparse.ArgumentParser()
    ap.add_argument('prop')
    ap.add_argument('--tier', default=os.environ.get('VERIF_TIER', 'quick'), choices=['quick', 'thorough', 'deep'])
    ap.add_argument('--replay')
    ap.add_argument('--only', action='append')
    ap.add_argument('--timeout-scale', type=float, default=float(os.environ.get('VERIF_TIMEOUT_SCALE', '1')))
    a = ap.parse_args(argv)
    if a.replay:
        return do_replay(a.replay)
    pid = a.prop
    try:
        seed = int(os.environ.get('VERIF_SEED', '0'))
    except ValueError:
        seed = 0
    t0 = time.time()
    hs = HR.for_prop(pid, a.tier)
    if a.only:
        hs = [h for h in hs if h.name in a.only]
    if not hs:
        log('no harness registered for %s (tier %s)' % (pid, a.tier))
        return 2
    # VERIF_SEED only permutes scheduling order (the solver's verdict does not depend on it)
    import random
    rnd = random.Random(seed)
    hs = sorted(hs, key=lambda h: -h.timeout)
    if seed:
        rnd.shuffle(hs)
    crates = sorted(set(h.crate for h in hs))
    meta = prepare(crates)
    if meta is None:
        write_evidence(pid, a.tier, seed, [], [], time.time() - t0, None, inconclusive=['oracle generation failed'])
        return 2
    log('[%s] tier=%s harnesses=%d (%s)' % (pid, a.tier, len(hs), ', '.join(h.name for h in hs)))
    # warm the shared target dirs (dependencies + tables) once, serially, before fanning out
    for c in crates:
        warm(c)
    results = []
    with cf.ThreadPoolExecutor(max_workers=MAX_PAR) as ex:
        futs = {ex.submit(run_harness, h, a.tier, a.timeout_scale): h for h in hs}
        for fut in cf.as_completed(futs):
            h = futs[fut]
            r = fut.result()
            results.append((h, r))
            nfail = sum(1 for c in r['checks'] if c['status'] == 'FAILURE')
            log('  %-34s %-11s %6.1fs  checks=%d failed=%d solver=%.1fs rss=%sMB%s' % (
                h.name, r['verdict'] or ('TIMEOUT' if r['timed_out'] else 'NO-VERDICT'), r['wall_s'], len(r['checks']), nfail,
                r['solver_s'], r.get('max_rss_mb'), ' (timeout %ds)' % r['timeout'] if r['timed_out'] else ''))
    global EVID
    if a.only:
        # a partial run (--only) must not replace the evidence of the property's full check
        EVID = os.path.join(VERIF, 'build', 'evidence_partial')
    return conclude(pid, a.tier, seed, results, meta, t0)


def crate_available(crate):
    """in-crate harness crates need their hook in /repo"""
    if crate == 'profiles':
        return 'PRECIS_VERIF_DIR' in open(os.path.join(REPO, 'precis-profiles', 'src', 'bidi.rs')).read()
    if crate == 'tools':
        return 'PRECIS_VERIF_DIR' in open(os.path.join(REPO, 'precis-tools', 'src', 'generators', 'ucd_generator.rs')).read()
    return True


def warm(crate):
    c = CRATES[crate]
    stamp = os.path.join(TARGET, crate, '.warm')
    cmd = ['cargo', 'kani'] + c['args'] + ['--target-dir', os.path.join(TARGET, crate), '-Z', 'stubbing',
                                           '--only-codegen', '--harness', 'pv_no_such_harness']
    t0 = time.time()
    r = subprocess.run(cmd, cwd=c['cwd'], env=base_env(), capture_output=True, text=True)
    with open(os.path.join(LOGS, 'warm.%s.log' % crate), 'w') as f:
        f.write(r.stdout + r.stderr)
    with open(stamp, 'w') as f:
        f.write('%f' % (time.time() - t0))


def conclude(pid, tier, seed, results, meta, t0):
    kf = known_findings()
    kf_by_id = {k['id']: k for k in kf.get('known', []) if k.get('property') == pid}
    inconclusive = []
    violations = []
    known_hits = []
    samples = []
    for h, r in results:
        if r['timed_out']:
            inconclusive.append('%s: timed out after %ds' % (h.name, r['timeout']))
            continue
        if r['compile_error'] or r['verdict'] is None:
            inconclusive.append('%s: no verdict (build error or crash; see %s)' % (h.name, r['log']))
            continue
        if r['cbmc_error']:
            inconclusive.append('%s: CBMC error / out of memory' % h.name)
            continue
        covers = [c for c in r['checks'] if '.cover.' in c['id']]
        others = [c for c in r['checks'] if '.cover.' not in c['id']]
        for c in covers:
            if c['desc'].startswith('KF:'):
                kid = c['desc'][3:].split()[0]
                if c['status'] == 'SATISFIED':
                    known_hits.append((kid, h, r))
                continue
            if c['status'] != 'SATISFIED':
                if c['desc'] in h.expect_unsat_cover:
                    continue
                tag = re.match(r'COVER\(([\w,]+)\)', c['desc'])
                if tag and not all(('_' + t + '_') in (h.name + '_') for t in tag.group(1).split(',')):
                    continue    # witness of another (compiled-out) variant of a split harness
                inconclusive.append('%s: reachability witness not satisfied (%s): %s' % (h.name, c['status'], c['desc']))
        failed = [c for c in others if c['status'] not in ('SUCCESS', 'UNREACHABLE')]
        unwind_fail = [c for c in failed if c['status'] == 'FAILURE' and classify_check(c) == 'unwind']
        if unwind_fail:
            # once an unwinding assertion fails Kani reports every other check as UNDETERMINED: one line is enough
            inconclusive.append('%s: unwinding assertion failed (%s): the unwind bound of the harness is too small for this code'
                                % (h.name, '; '.join('%s %s' % (c['id'], c['desc']) for c in unwind_fail[:3])))
            failed = [c for c in failed if c['status'] == 'FAILURE' and classify_check(c) in ('property', 'safety')]
        for c in failed:
            kind = classify_check(c)
            if h.only_safety and kind == 'property':
                log('  note: %s: property assertion failed in a body re-run for C01 (not a C01 matter): %s' % (h.name, c['desc']))
                continue
            if c['status'] != 'FAILURE':
                inconclusive.append('%s: check %s is %s: %s' % (h.name, c['id'], c['status'], c['desc']))
            elif kind in ('model', 'unwind', 'unsupported'):
                inconclusive.append('%s: %s assertion failed: %s' % (h.name, kind, c['desc']))
            else:
                # property or safety failure: needs a native replay
                play = None
                for p in r['plays']:
                    if p['kind'] != 'cover' and p['what'] == c['desc']:
                        play = p
                        break
                violations.append((h, r, c, play))
        for p in r['plays']:
            if p['kind'] == 'cover' and len(samples) < 12:
                samples.append({'harness': h.name, 'witness_for': p['what'], 'kani_any_values_le_bytes': p['vals']})

    # replay every distinct failing check that has its own counterexample; a failing check is
    # "reproduced" only if the SAME check fails natively (property assertion) or the real code
    # panics (safety check)
    reported = []
    seen = set()
    unreplayed = []
    for h, r, c, play in violations:
        key = (h.name, c['desc'])
        if key in seen:
            continue
        seen.add(key)
        kind = classify_check(c)

        def reproduces(out):
            if kind == 'property':
                return ('REPLAY failed: ' + c['desc']) in out
            return 'REPLAY panic:' in out
        if play is None:
            # Kani prints one playback per distinct assignment: when the counterexample of this check coincides with
            # the witness of a cover (or of another check) no separate test is printed.  Try the printed ones: the
            # criterion stays the same -- THIS check must fail natively on the real code.
            for cand in r['plays']:
                rep_c = native_replay(h, cand['vals'])
                if any(rc == 1 and reproduces(out) for rc, out in rep_c.values()):
                    play = cand
                    break
        if play is None:
            unreplayed.append((h, c))
            continue
        rep = native_replay(h, play['vals'])
        reproduced = any(rc == 1 and reproduces(out) for rc, out in rep.values())
        invalid = all(rc == 2 for rc, _ in rep.values())
        rid = hashlib.sha1((h.name + c['desc'] + hexvals(play['vals'])).encode()).hexdigest()[:10]
        path = os.path.join(REPLAYS, '%s-%s-%s.json' % (pid, h.name, rid))
        with open(path, 'w') as f:
            json.dump({'property': pid, 'harness': h.name, 'crate': h.crate, 'failed_check': c['desc'], 'check_id': c['id'],
                       'location': c['loc'], 'vals': play['vals'],
                       'native': {k: {'exit': v[0], 'output': v[1]} for k, v in rep.items()},
                       'how_to_replay': './check %s --replay %s' % (pid, path)}, f, indent=1)
        if reproduced:
            reported.append((h, c, path, rep))
        elif invalid:
            inconclusive.append('%s: counterexample for "%s" could not be replayed natively (%s)' % (h.name, c['desc'], path))
        else:
            inconclusive.append('%s: counterexample for "%s" does NOT reproduce on the real code: the model or a stub is wrong (%s)'
                                % (h.name, c['desc'], path))
    for h, c in unreplayed:
        if any(hh is h for hh, _, _, _ in reported):
            log('  also failed in %s (no separate counterexample printed by Kani): %s' % (h.name, c['desc']))
        else:
            inconclusive.append('%s: failed check without a concrete counterexample: %s' % (h.name, c['desc']))

    printed = set()
    for kid, h, r in known_hits:
        k = kf_by_id.get(kid)
        if k is not None and kid not in printed:
            printed.add(kid)
            who = ', '.join(sorted(set(hh.name for kk, hh, _ in known_hits if kk == kid)))
            log('KNOWN-FINDING: property=%s %s [%s; witness found by %s]' % (pid, k['what'], kid, who))
    for h, c, path, rep in reported:
        outs = ' | '.join('%s: %s' % (k, '; '.join(x for x in v[1].strip().splitlines() if x.startswith('REPLAY') and 'covered' not in x))
                          for k, v in rep.items())
        log('  counterexample of %s reproduces natively: %s  [%s]' % (h.name, c['desc'], outs))
        log('VIOLATION property=%s replay=%s' % (pid, path))
    for m in inconclusive:
        log('INCONCLUSIVE: ' + m)
    write_evidence(pid, tier, seed, results, samples, time.time() - t0, meta, inconclusive=inconclusive,
                   violations=[(h.name, c['desc'], p) for h, c, p, _ in reported],
                   known=[kid for kid, _, _ in known_hits if kid in kf_by_id])
    if reported:
        return 1
    if inconclusive:
        return 2
    log('[%s] holds within the stated bounds: %d harnesses, %d checks, wall %.0fs' % (
        pid, len(results), sum(len(r['checks']) for _, r in results), time.time() - t0))
    return 0


def write_evidence(pid, tier, seed, results, samples, wall, meta, inconclusive=(), violations=(), known=()):
    total = sum(len(r['checks']) for _, r in results)
    ok = sum(1 for _, r in results for c in r['checks'] if c['status'] in ('SUCCESS', 'SATISFIED'))
    # distinct, non-trivial obligations: property assertions (PV:) that CBMC proved AND found reachable,
    # plus satisfied reachability witnesses; counted per (harness, description)
    nontrivial = set()
    for h, r in results:
        for c in r['checks']:
            if c['desc'].startswith('PV:') and c['status'] == 'SUCCESS':
                nontrivial.add((h.name, c['desc']))
            if '.cover.' in c['id'] and c['status'] == 'SATISFIED':
                nontrivial.add((h.name, c['desc']))
    hv = []
    for h, r in results:
        by = {}
        for c in r['checks']:
            by[c['status']] = by.get(c['status'], 0) + 1
        hv.append({
            'harness': h.name, 'crate': h.crate, 'verdict': r['verdict'], 'timed_out': r['timed_out'],
            'functions_encoded': h.funcs, 'bound': h.bound, 'unwind': h.unwind, 'kani_flags': h.kani_flags(tier),
            'stubs': h.stub_docs(), 'stubs_applied_by_kani': r['stubs_applied'],
            'checks_by_status': by, 'sat_calls': r['sat_calls'], 'solver_time_s': r['solver_s'], 'symex_time_s': r['symex_s'],
            'sat_vars': r['sat_vars'], 'sat_clauses': r['sat_clauses'], 'wall_s': r['wall_s'], 'max_rss_mb': r.get('max_rss_mb'), 'mem_limit_gb': h.mem_gb,
            'property_assertions': sorted(set(c['desc'] for c in r['checks'] if c['desc'].startswith('PV:'))),
        })
    if not samples:
        for h, r in results:
            for c in r['checks']:
                if c['desc'].startswith('PV:'):
                    samples.append({'harness': h.name, 'obligation': c['desc'], 'status': c['status']})
                    break
    if not samples:
        samples = [{'note': 'no harness produced output'}]
    ev = {
        'property_id': pid, 'tier': 'thorough' if tier == 'deep' else tier, 'seed': seed, 'level': 'model_checking',
        'coverage': {
            'evaluations': max(total, 0),
            'distinct_nontrivial': len(nontrivial),
            'rule': 'evaluations = CBMC verification conditions decided on this run (property assertions, panic/overflow/'
                    'index/pointer checks of the real code, unwinding assertions, reachability covers); distinct_nontrivial = '
                    'distinct (harness, PV: property assertion) pairs proved AND reachable plus satisfied reachability witnesses. '
                    'Inputs are symbolic: each condition is decided by the SAT solver for every input inside the bound.',
            'samples': samples[:12],
            'obligations': total, 'discharged': ok,
            'harnesses': hv,
            'solver_time_s': round(sum(r['solver_s'] for _, r in results), 2),
            'engine': 'Kani 0.68.0 / CBMC 6.11.0 / CaDiCaL on the compiled Rust of /repo (current working tree)',
            'oracle_inputs': meta,
            'inconclusive': list(inconclusive),
            'violations': [{'harness': a, 'check': b, 'replay': c} for a, b, c in violations],
            'known_findings_present': list(known),
            'exhaustive': False,
        },
        'assumptions': sorted(set(s for h, _ in results for s in h.stub_docs())) + [
            'Kani translation of MIR and CBMC/CaDiCaL are trusted',
            'Kani models the dev profile (overflow checks on); counterexamples are replayed natively in dev and release',
            'claims hold within the per-harness bounds listed under coverage.harnesses[].bound; larger inputs are outside the claim',
        ],
        'wall_s': round(wall, 2),
        'violations': len(violations),
    }
    os.makedirs(EVID, exist_ok=True)
    with open(os.path.join(EVID, '%s.json' % pid), 'w') as f:
        json.dump(ev, f, indent=1)
